"""C08 translator: finite tables of the integrate() contract, regenerated from /repo on every run.

  * enum REB_STATUS                      <- src/rebound.h
  * status -> exception dispatch         <- rebound/simulation.py, Simulation.integrate (ast)
  * time bookkeeping of every integrator <- src/integrator*.c (assignments to r->t, r->dt,
    r->dt_last_done inside reb_integrator_<x>_part1/2), classified into the StepKind of the
    Lean model (once / halves / janus / adaptive)

writes lean/RV/Gen/C08Status.lean; returns the tables and item counts."""
import ast, os, re

EXPECT_STATUS_COUNT = 14
EXPECT_PY_BRANCHES = 7


def extract_status_enum(repo):
    src = open(os.path.join(repo, "src", "rebound.h")).read()
    m = re.search(r"enum\s+REB_STATUS\s*\{(.*?)\};", src, flags=re.S)
    if not m:
        return []
    body = re.sub(r"//[^\n]*", "", m.group(1))
    body = re.sub(r"/\*.*?\*/", "", body, flags=re.S)
    out, nxt = [], 0
    for item in body.split(","):
        item = item.strip()
        if not item:
            continue
        mm = re.match(r"^([A-Za-z_]\w*)\s*(?:=\s*(-?\s*\d+))?$", item)
        if not mm:
            return []
        v = int(mm.group(2).replace(" ", "")) if mm.group(2) is not None else nxt
        out.append((mm.group(1), v))
        nxt = v + 1
    return out


def extract_py_dispatch(repo):
    """[(code, exception-name or None)] in source order; problems: list of strings"""
    src = open(os.path.join(repo, "rebound", "simulation.py")).read()
    tree = ast.parse(src)
    problems, table = [], []
    fn = None
    for node in ast.walk(tree):
        if isinstance(node, ast.ClassDef) and node.name == "Simulation":
            for b in node.body:
                if isinstance(b, ast.FunctionDef) and b.name == "integrate":
                    fn = b
    if fn is None:
        return [], ["Simulation.integrate not found"], None
    retvar = None
    for st in fn.body:
        if isinstance(st, ast.Assign) and isinstance(st.value, ast.Call):
            f = st.value.func
            if isinstance(f, ast.Attribute) and f.attr == "reb_simulation_integrate" and len(st.targets) == 1 \
                    and isinstance(st.targets[0], ast.Name):
                retvar = st.targets[0].id
    if retvar is None:
        return [], ["no `x = clibrebound.reb_simulation_integrate(...)` assignment"], None
    for st in fn.body:
        if not isinstance(st, ast.If):
            continue
        t = st.test
        if not (isinstance(t, ast.Compare) and isinstance(t.left, ast.Name) and t.left.id == retvar
                and len(t.ops) == 1 and isinstance(t.ops[0], ast.Eq) and isinstance(t.comparators[0], ast.Constant)):
            problems.append("unrecognised test at line %d" % st.lineno)
            continue
        code = t.comparators[0].value
        if st.orelse:
            problems.append("else branch at line %d" % st.lineno)
        names = []
        for n in ast.walk(st):
            if isinstance(n, ast.Raise):
                e = n.exc
                if isinstance(e, ast.Call):
                    e = e.func
                names.append(e.id if isinstance(e, ast.Name) else (e.attr if isinstance(e, ast.Attribute) else "?"))
        # every path through the body must raise, or none
        def always_raises(body):
            for s in body:
                if isinstance(s, ast.Raise):
                    return True
                if isinstance(s, ast.If) and s.orelse and always_raises(s.body) and always_raises(s.orelse):
                    return True
            return False
        if names and not always_raises(st.body):
            problems.append("branch for %r raises only on some paths (line %d)" % (code, st.lineno))
        if len(set(names)) > 1:
            problems.append("branch for %r raises several classes %s" % (code, sorted(set(names))))
        table.append((code, names[0] if names else None))
    # the exact_finish_time argument must be stored before the call
    sets_exact = any(isinstance(st, ast.Assign) and any(isinstance(tg, ast.Attribute) and tg.attr == "exact_finish_time"
                                                        for tg in st.targets) for st in fn.body)
    if not sets_exact:
        problems.append("integrate() no longer stores exact_finish_time")
    return table, problems, fn.lineno


def _func_body(src, name):
    m = re.search(r"^\w[\w\s\*]*\b%s\s*\([^)]*\)\s*\{" % re.escape(name), src, flags=re.M)
    if not m:
        return None
    i = m.end()
    depth = 1
    while i < len(src) and depth:
        c = src[i]
        if c == "{":
            depth += 1
        elif c == "}":
            depth -= 1
        i += 1
    return src[m.end():i - 1]


def _strip(src):
    src = re.sub(r"/\*.*?\*/", "", src, flags=re.S)
    return re.sub(r"//[^\n]*", "", src)


ASSIGN = re.compile(r"\br->(t|dt|dt_last_done)\s*(\+=|-=|\*=|/=|=)(?!=)\s*([^;]+);")

# signature (normalised assignments in part1+part2, in order) -> kind of the Lean model
SIGNATURES = {
    ("t+=dt/2.", "t+=dt/2.", "dt_last_done=r->dt"): "halves",
    ("t+=r->dt/2.", "t+=r->dt/2.", "dt_last_done=r->dt"): "halves",
    ("t+=r->dt", "dt_last_done=r->dt"): "once",
    ("t+=r->dt",): "janus",
}

INTEGRATORS = ["none", "leapfrog", "whfast", "saba", "janus", "eos", "mercurius", "sei", "ias15", "bs", "trace"]


def extract_step_kinds(repo):
    """{integrator: (kind or None, signature)}"""
    out = {}
    for name in INTEGRATORS:
        if name == "none":
            src = _strip(open(os.path.join(repo, "src", "integrator.c")).read())
            body = _func_body(src, "reb_integrator_part2") or ""
            m = re.search(r"case\s+REB_INTEGRATOR_NONE\s*:(.*?)break\s*;", body, flags=re.S)
            bodies = [m.group(1) if m else ""]
        else:
            src = _strip(open(os.path.join(repo, "src", "integrator_%s.c" % name)).read())
            bodies = [_func_body(src, "reb_integrator_%s_part%d" % (name, k)) or "" for k in (1, 2)]
            if name == "ias15":
                # part2 only loops `while(!reb_integrator_ias15_step(r))`; the bookkeeping is in _step
                bodies.append(_func_body(src, "reb_integrator_ias15_step") or "")
        sig = []
        for b in bodies:
            for mm in ASSIGN.finditer(b):
                sig.append("%s%s%s" % (mm.group(1), mm.group(2), re.sub(r"\s+", "", mm.group(3))))
        sig = tuple(sig)
        kind = SIGNATURES.get(sig)
        if kind is None:
            # mercurius / trace: save and restore around the encounter sub-integration, then a plain step
            core = tuple(s for s in sig if s not in ("t=old_t", "dt=old_dt"))
            if core and SIGNATURES.get(core) and len(sig) - len(core) in (0, 2):
                kind = SIGNATURES[core]
        if kind is None and name == "ias15":
            want = {"t=t_beginning", "t+=dt_done", "dt_last_done=dt_done", "dt=dt_new"}
            if want <= set(sig) and all(s in want or s.startswith("t=t_beginning+") for s in sig):
                kind = "adaptive"
        if kind is None and name == "bs":
            if sig == ("t+=r->dt", "dt_last_done=r->dt", "dt=ri_bs->dt_proposed"):
                kind = "adaptive"
        out[name] = (kind, sig)
    return out


def lean_str(s):
    return '"' + s.replace("\\", "\\\\").replace('"', '\\"') + '"'


def generate(repo):
    enum = extract_status_enum(repo)
    table, problems, lineno = extract_py_dispatch(repo)
    kinds = extract_step_kinds(repo)
    L = []
    L.append("/- GENERATED by rv/extract_c08.py from src/rebound.h, rebound/simulation.py, src/integrator*.c — do not edit -/")
    L.append("namespace RV.Gen.C08")
    L.append("")
    L.append("/-- enum REB_STATUS (src/rebound.h) -/")
    L.append("def rebStatus : List (String × Int) := [")
    L.append(",\n".join("  (%s, %d)" % (lean_str(n), v) for n, v in enum))
    L.append("]")
    L.append("def rebStatusCount : Nat := %d" % len(enum))
    L.append("")
    L.append("/-- `if ret_value == k:` branches of Simulation.integrate (rebound/simulation.py), in source order;")
    L.append("    `none` = the branch does not raise -/")
    L.append("def pyTable : List (Int × Option String) := [")
    L.append(",\n".join("  (%d, %s)" % (c, ("some " + lean_str(e)) if e else "none") for c, e in table
                        if isinstance(c, int)))
    L.append("]")
    L.append("def pyTableCount : Nat := %d" % len(table))
    L.append("def pyProblems : Nat := %d" % len(problems))
    L.append("")
    L.append("/-- time bookkeeping class of every integrator (\"?\" = not recognised) -/")
    L.append("def stepKinds : List (String × String) := [")
    L.append(",\n".join("  (%s, %s)" % (lean_str(n), lean_str(kinds[n][0] or "?")) for n in INTEGRATORS))
    L.append("]")
    L.append("")
    L.append("end RV.Gen.C08")
    rc = _strip(open(os.path.join(repo, "src", "rebound.c")).read())
    raw = _func_body(rc, "reb_simulation_integrate_raw") or ""
    # fixes/C08-absorbed-step-error.diff: after reb_simulation_step, `r->t==t_before_step && r->dt==dt_before_step` -> GENERIC_ERROR
    has_guard = bool(re.search(r"reb_simulation_step\(r\);\s*if\s*\([^)]*r->t\s*==\s*\w+[^)]*r->dt\s*==\s*\w+", raw))
    # v2 of the guard (fixes/C08-absorbed-step-error-v2.diff): only the second stalled step in a row is an error
    guard_needs = 2 if re.search(r"steps_without_progress\s*>=\s*2", raw) else (1 if has_guard else 0)
    # third variant (/repo addb1f3): the step only records no_progress, the error is raised at the top of the next pass of the loop
    if re.search(r"no_progress\s*=\s*\(\s*r->t\s*==\s*\w+\s*&&\s*r->dt\s*==\s*\w+", raw) and re.search(r"if\s*\(\s*no_progress\s*\)", raw):
        guard_needs = 3
    if guard_needs >= 2:
        has_guard = True
    # fixes/C08-bs-no-particles.diff: reb_check_exit does not count the N-body ODE that BS registers itself
    ce = _func_body(rc, "reb_check_exit") or ""
    bs_user_odes = bool(re.search(r"nbody_ode", ce))
    integ_fn = _func_body(rc, "reb_simulation_integrate") or ""
    has_nan_guard = bool(re.search(r"isnan\s*\(\s*tmax\s*\)", integ_fn + raw))
    return "\n".join(L) + "\n", dict(enum=enum, table=table, problems=problems, kinds=kinds, lineno=lineno, has_progress_guard=has_guard,
                                    has_nan_guard=has_nan_guard, guard_needs=guard_needs, bs_user_odes=bs_user_odes)


def entry_points(repo):
    """public functions / attributes that reach the integrate() state machine, extracted from the sources:
    C: DLLEXPORT declarations of rebound.h (integrate, step, steps, stop, the halting resolver), the non-static routines of rebound.c the
    loop is made of (reb_check_exit, reb_run_heartbeat) and the global reb_sigint; Python: the methods of Simulation that call one of these,
    and the struct members the contract reads (exact_finish_time, exit_max_distance, exit_min_distance)."""
    hdr = _strip(open(os.path.join(repo, "src", "rebound.h")).read())
    rc = _strip(open(os.path.join(repo, "src", "rebound.c")).read())
    cnames = set(re.findall(r"DLLEXPORT[^;(]*?\b(reb_simulation_(?:integrate|steps?|stop)|reb_collision_resolve_halt)\s*\(", hdr))
    for nm in ("reb_check_exit", "reb_run_heartbeat"):
        if re.search(r"^(?!static)\w[\w\s\*]*\b%s\s*\(" % nm, rc, flags=re.M):
            cnames.add(nm)
    if re.search(r"extern\s+volatile\s+sig_atomic_t\s+reb_sigint", hdr):
        cnames.add("reb_sigint")
    src = open(os.path.join(repo, "rebound", "simulation.py")).read()
    tree = ast.parse(src)
    pynames = set()
    for node in ast.walk(tree):
        if isinstance(node, ast.ClassDef) and node.name == "Simulation":
            for b in node.body:
                if isinstance(b, ast.FunctionDef):
                    for n in ast.walk(b):
                        if isinstance(n, ast.Attribute) and n.attr in cnames and isinstance(n.value, ast.Name) and n.value.id == "clibrebound":
                            pynames.add("Simulation." + b.name)
    for fld in ("exact_finish_time", "exit_max_distance", "exit_min_distance"):
        if re.search(r'\("%s"\s*,' % fld, src):
            pynames.add("Simulation." + fld)
    return sorted(cnames), sorted(pynames)


if __name__ == "__main__":
    import sys
    text, info = generate(sys.argv[1] if len(sys.argv) > 1 else "/repo")
    print(text)
    print(info)
