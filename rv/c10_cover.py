"""Pairwise (and selected 3-way) covering arrays for the C10 generators.

A generator is described by explicit FACTORS (name -> finite list of values) and by the list of
value pairs that are excluded (combinations the code rejects, that are meaningless, or that are too
expensive — each with a reason).  `covering_array` builds a greedy all-pairs array (every candidate is
seeded with a still uncovered tuple, the best of a few dozen random completions is kept), optionally
also covering all triples of a subset of the factors.  `Coverage` records the tuples of the cases that
were actually evaluated and reports covered / total / excluded.
"""
import itertools


class Factors:
    def __init__(self, factors, excluded=(), triples=()):
        """factors: dict name -> list of values (order = the order of the dict);
        excluded: list of (f, a, g, b, reason): the pair f=a, g=b is never generated (a or b may be a set);
        triples: names of the factors whose 3-way combinations are to be covered as well"""
        self.names = list(factors)
        self.values = {k: list(v) for k, v in factors.items()}
        self.excl = []
        for f, a, g, b, why in excluded:
            A = a if isinstance(a, (set, list, tuple, frozenset)) else [a]
            B = b if isinstance(b, (set, list, tuple, frozenset)) else [b]
            for x in A:
                for y in B:
                    self.excl.append((f, x, g, y, why))
        self._bad = {}
        for f, x, g, y, why in self.excl:
            self._bad[(f, x, g, y)] = why
            self._bad[(g, y, f, x)] = why
        self.triples = list(triples)

    def bad_pair(self, f, a, g, b):
        return (f, a, g, b) in self._bad

    def valid(self, case):
        items = list(case.items())
        for i, (f, a) in enumerate(items):
            for g, b in items[i + 1:]:
                if (f, a, g, b) in self._bad:
                    return False
        return True

    def all_pairs(self):
        out = []
        for i, f in enumerate(self.names):
            for g in self.names[i + 1:]:
                for a in self.values[f]:
                    for b in self.values[g]:
                        if not self.bad_pair(f, a, g, b):
                            out.append((f, a, g, b))
        return out

    def n_excluded(self):
        n = 0
        for i, f in enumerate(self.names):
            for g in self.names[i + 1:]:
                for a in self.values[f]:
                    for b in self.values[g]:
                        n += self.bad_pair(f, a, g, b)
        return n

    def all_triples(self):
        out = []
        for f, g, h in itertools.combinations([n for n in self.names if n in self.triples], 3):
            for a in self.values[f]:
                for b in self.values[g]:
                    if self.bad_pair(f, a, g, b):
                        continue
                    for c in self.values[h]:
                        if self.bad_pair(f, a, h, c) or self.bad_pair(g, b, h, c):
                            continue
                        out.append((f, a, g, b, h, c))
        return out

    def tuples_of(self, case, with_triples=False):
        items = [(n, case[n]) for n in self.names]
        out = []
        for i, (f, a) in enumerate(items):
            for g, b in items[i + 1:]:
                out.append((f, a, g, b))
        if with_triples:
            t = [(n, case[n]) for n in self.names if n in self.triples]
            for (f, a), (g, b), (h, c) in itertools.combinations(t, 3):
                out.append((f, a, g, b, h, c))
        return out


def covering_array(F, rng, with_triples=False, ncand=40, maxcases=5000):
    """greedy all-pairs (+ selected triples) array; deterministic for a given rng state"""
    todo = set(F.all_pairs())
    if with_triples:
        todo |= set(F.all_triples())
    cases = []
    stuck = []
    order_all = sorted(todo, key=str)
    rng.shuffle(order_all)
    ptr = 0
    while todo and len(cases) < maxcases:
        while ptr < len(order_all) and order_all[ptr] not in todo:
            ptr += 1
        if ptr >= len(order_all):
            break
        seed_t = order_all[ptr]
        best, bestn = None, -1
        for k in range(ncand):
            case = {}
            for j in range(0, len(seed_t), 2):
                case[seed_t[j]] = seed_t[j + 1]
            order = [n for n in F.names if n not in case]
            rng.shuffle(order)
            ok = True
            for n in order:
                vals = list(F.values[n])
                rng.shuffle(vals)
                for v in vals:
                    if all(not F.bad_pair(n, v, g, b) for g, b in case.items()):
                        case[n] = v
                        break
                else:
                    ok = False
                    break
            if not ok:
                continue
            gain = sum(1 for t in F.tuples_of(case, with_triples) if t in todo)
            if gain > bestn:
                best, bestn = case, gain
        if best is None or bestn <= 0:
            # the seed tuple cannot be completed to a valid case: excluded by implication
            todo.discard(seed_t)
            stuck.append(seed_t)
            continue
        cases.append({n: best[n] for n in F.names})
        for t in F.tuples_of(best, with_triples):
            todo.discard(t)
    return cases, stuck


def complete(F, seed_t, rng, tries=30):
    """a valid case containing the tuple seed_t (None if there is none)"""
    for k in range(tries):
        case = {}
        for j in range(0, len(seed_t), 2):
            case[seed_t[j]] = seed_t[j + 1]
        order = [n for n in F.names if n not in case]
        rng.shuffle(order)
        ok = True
        for n in order:
            vals = list(F.values[n])
            rng.shuffle(vals)
            for v in vals:
                if all(not F.bad_pair(n, v, g, b) for g, b in case.items()):
                    case[n] = v
                    break
            else:
                ok = False
                break
        if ok:
            return {n: case[n] for n in F.names}
    return None


class Coverage:
    def __init__(self, F, with_triples=False, implied_excluded=()):
        self.F = F
        self.with_triples = with_triples
        self.seen = set()
        self.implied = set(implied_excluded)
        self.need = set(F.all_pairs()) - self.implied
        self.need3 = (set(F.all_triples()) - self.implied) if with_triples else set()

    def add(self, case):
        for t in self.F.tuples_of(case, self.with_triples):
            self.seen.add(t)

    def report(self):
        cov = len(self.seen & self.need)
        r = {"covered": cov, "total": len(self.need), "excluded": self.F.n_excluded() + len([t for t in self.implied if len(t) == 4]),
             "factors": {n: len(self.F.values[n]) for n in self.F.names},
             "missing": [list(map(str, t)) for t in sorted(self.need - self.seen, key=str)[:12]]}
        if self.with_triples:
            r["triples_covered"] = len(self.seen & self.need3)
            r["triples_total"] = len(self.need3)
            r["triples_over"] = self.F.triples
        return r

    def missing_cases_seed(self):
        return sorted((self.need | self.need3) - self.seen, key=str)


def excluded_table(F):
    """distinct reasons with the number of excluded pairs (for the evidence / notes)"""
    out = {}
    for f, a, g, b, why in F.excl:
        out[why] = out.get(why, 0) + 1
    return out
