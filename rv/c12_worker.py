"""subprocess worker of the C12 search, run with LD_PRELOAD=<c12_trace.so>: drives real integrators
and prints, per configuration, the set of (N, N_active) pairs their call sites handed to the
reb_particles_transform_* routines within one run."""
import ctypes, json, os, sys
d, shim, seed = sys.argv[1], sys.argv[2], int(sys.argv[3])
sys.path.insert(0, os.path.dirname(os.path.abspath(__file__)))
from common import SplitMix, use_scratch_rebound
rebound = use_scratch_rebound(d)
tr = ctypes.CDLL(shim)
tr.rbv_trace_get.restype = ctypes.c_char_p
rng = SplitMix(seed)
out = []
configs = []
for coord in ("jacobi", "democraticheliocentric", "whds", "barycentric"):
    for corr in (0, 3, 11):
        for kernel in ("default", "modifiedkick", "composition", "lazy"):
            if kernel != "default" and coord != "jacobi":
                continue
            for c2 in (0, 1):
                if c2 and (coord != "jacobi" or corr == 0):
                    continue
                configs.append(("whfast", dict(coordinates=coord, corrector=corr, kernel=kernel, corrector2=c2)))
for ty in ("1", "4", "cl4", "cm2", "10,6,4", "h8,4,4"):
    configs.append(("saba", dict(type=ty)))
thorough = os.environ.get("VERIF_TIER", "quick") == "thorough"
PATTERNS = ("steps", "integrate-exact", "integrate-reversal", "edit-recalc")
idx = 0
for integ, opts in configs:
    for safe in (1, 0):
        for split in ("all", "tp0", "tp1", "var", "negdt"):
          # further factors, fully crossed in the thorough tier, rotated with the seed in quick (every pair of
          # (pattern, keep) with (configuration, safe, split) values is reached within a few seeds)
          idx += 1
          fac = [(pt, kp) for pt in PATTERNS for kp in (0, 1)]
          for pattern, keep in (fac if thorough else [fac[(idx + seed) % len(fac)], fac[(idx * 3 + seed + 5) % len(fac)]]):
                n = rng.randint(3, 6)
                sim = rebound.Simulation()
                sim.add(m=1.0)
                for i in range(1, n):
                    sim.add(m=10 ** (-rng.uniform(3, 6)), a=1.0 + 0.6 * i, e=rng.uniform(0, 0.1), inc=rng.uniform(0, 0.05), f=rng.uniform(0, 6))
                sim.move_to_com()
                sim.integrator = integ
                sim.dt = 0.05
                ri = sim.ri_whfast if integ == "whfast" else sim.ri_saba
                for k, v in opts.items():
                    setattr(ri, k, v)
                ri.safe_mode = safe
                ri.keep_unsynchronized = keep
                if split in ("tp0", "tp1"):
                    sim.N_active = rng.randint(1, n - 1)
                    sim.testparticle_type = 1 if split == "tp1" else 0
                if split == "negdt":
                    sim.dt = -0.05
                if split == "var":
                    if integ != "whfast" or opts.get("coordinates") != "jacobi" or opts.get("kernel", "default") != "default":
                        continue      # variations are only supported by WHFast in Jacobi coordinates with the default kernel
                    var = sim.add_variation()
                    for vp in var.particles:
                        vp.x = rng.normal() * 1e-3; vp.vy = rng.normal() * 1e-3; vp.z = rng.normal() * 1e-3
                    if rng.chance(0.5):
                        sim.init_megno()
                tr.rbv_trace_reset()
                try:
                    if pattern == "steps":
                        sim.steps(3)
                        sim.synchronize()
                    elif pattern == "integrate-exact":      # shortened last step: dt changes, synchronize_before_dt_change
                        sim.integrate(sim.t + 2.6 * sim.dt)
                        sim.integrate(sim.t + 1.3 * sim.dt)
                    elif pattern == "integrate-reversal":   # direction reversal between calls
                        sim.integrate(sim.t + 2.0 * sim.dt, exact_finish_time=0)
                        sim.integrate(sim.t - 1.5 * sim.dt)
                    else:                                   # user edit of a synchronised simulation + documented recalculation flag
                        sim.steps(2)
                        sim.synchronize()
                        for p in sim.particles[:n]:
                            p.x += 0.01
                        sim.ri_whfast.recalculate_coordinates_this_timestep = 1
                        sim.steps(2)
                        sim.synchronize()
                except Exception as e:
                    out.append(dict(integ=integ, opts=opts, safe=safe, split=split, pattern=pattern, keep=keep, error=str(e)))
                    continue
                calls = [l.split() for l in tr.rbv_trace_get().decode().splitlines()]
                pairs = sorted({(int(c[1]), int(c[2])) for c in calls})
                out.append(dict(integ=integ, opts=opts, safe=safe, split=split, pattern=pattern, keep=keep, N=n, N_active=sim.N_active,
                                tpt=sim.testparticle_type, ncalls=len(calls), pairs=pairs,
                                routines=sorted({c[0] for c in calls})))
# ---------------------------------------------------------------- frame covariance at integrator level
# The heliocentric / Jacobi maps used inside the integrators carry the centre of mass separately; if forward
# and inverse maps are mutual inverses and slot 0 really is the COM, a run of the system shifted by d and
# boosted by u equals the original run shifted by d + u t (exact arithmetic).  Includes TRACE/MERCURIUS
# steps that are rejected and redone (close encounters, pericentre switches) and a COM far from the origin.
cov = []
def build(kind, integ, opts, d, u, rngs, role="plain"):
    sim = rebound.Simulation()
    sim.add(m=1.0)
    if kind == "regular":
        for i in range(1, 4):
            sim.add(m=10 ** (-rngs.uniform(3, 5)), a=1.0 + 0.7 * i, e=rngs.uniform(0, 0.1), inc=rngs.uniform(0, 0.05), f=rngs.uniform(0, 6))
    elif kind == "encounter":   # two planets on crossing orbits: close encounter within a few steps
        sim.add(m=1e-3, a=1.0, e=0.05, f=0.0)
        sim.add(m=1e-3, a=1.03, e=0.06, f=0.06, inc=0.001)
        sim.add(m=1e-5, a=2.5, f=1.0)
    elif kind == "approach":    # a faster inner planet catches up with the outer one: it ENTERS the critical radius during the
        sim.add(m=1e-3, a=1.0, e=0.0, f=0.0)      # run, so that the step in which this happens is rejected and redone (TRACE) /
        sim.add(m=1e-3, a=0.95, e=0.0, f=-0.27)   # switches to the encounter integration (MERCURIUS)
        sim.add(m=1e-5, a=2.5, f=1.0)
    else:                       # eccentric: pericentre switch of TRACE
        sim.add(m=1e-4, a=1.0, e=0.93, f=-0.35)
        sim.add(m=1e-4, a=4.0, e=0.1, f=2.0)
    if role != "plain":   # test particles behind the active ones: massless (type 0) or with a small mass (type 1)
        nact = sim.N
        sim.add(m=0.0 if role == "tp0" else 1e-7, a=3.3, e=0.05, f=2.0, inc=0.02)
        sim.add(m=0.0 if role == "tp0" else 1e-8, a=0.6, e=0.02, f=4.0)
        sim.N_active = nact
        sim.testparticle_type = 0 if role == "tp0" else 1
    sim.move_to_com()
    for p in sim.particles:
        p.x += d[0]; p.y += d[1]; p.z += d[2]; p.vx += u[0]; p.vy += u[1]; p.vz += u[2]
    sim.integrator = integ
    sim.dt = (0.03 if kind != "regular" else 0.05) * (-1.0 if opts.get("_negdt") else 1.0)
    opts = {k: v for k, v in opts.items() if not k.startswith("_")}
    ri = {"whfast": sim.ri_whfast, "saba": sim.ri_saba, "mercurius": sim.ri_mercurius, "trace": sim.ri_trace}.get(integ)
    for k, v in opts.items():
        setattr(ri, k, v)
    return sim
cconfigs = [("whfast", dict(coordinates=c)) for c in ("jacobi", "democraticheliocentric", "whds", "barycentric")]
cconfigs += [("whfast", dict(coordinates=c, _negdt=1)) for c in ("jacobi", "democraticheliocentric", "whds", "barycentric")]
cconfigs += [("mercurius", dict(_negdt=1)), ("whfast", dict(coordinates="jacobi", corrector=11, safe_mode=0)), ("saba", dict(type="4")), ("saba", dict(type="cl4")),
             ("mercurius", {}), ("mercurius", dict(safe_mode=0)), ("trace", {}), ("trace", dict(peri_mode="PARTIAL_BS")), ("trace", dict(peri_mode="FULL_IAS15"))]
ROLES = ("plain", "tp0", "tp1")
CALLS = ("steps", "integrate")      # integrate: exact-finish output calls (shortened steps, dt restored) instead of single steps
cidx = 0
for integ, opts in cconfigs:
    for kind in ("regular", "encounter", "approach", "eccentric"):
      if kind != "regular" and integ not in ("mercurius", "trace"):
          continue
      cidx += 1
      # user-settable recalculation flags of the integrator in use (extracted from the ctypes class, so a new flag is picked up):
      # setting one between steps WITHOUT synchronising first is legal (the code synchronises itself and warns) and must not
      # break covariance; only meaningful when the integrator can be unsynchronised (safe_mode = 0)
      ricls = {"whfast": rebound.integrators.whfast.IntegratorWHFast, "saba": rebound.integrators.saba.IntegratorSABA,
               "mercurius": rebound.integrators.mercurius.IntegratorMercurius, "trace": rebound.integrators.trace.IntegratorTRACE}[integ]
      flags = [f[0] for f in ricls._fields_ if f[0].startswith("recalculate_")]
      if integ == "saba":
          flags = ["whfast:recalculate_coordinates_this_timestep"]
      fac = [(ro, ca, "none") for ro in ROLES for ca in CALLS]
      if opts.get("safe_mode", 1) == 0 or integ in ("mercurius",):
          fac += [("plain", "steps", fl) for fl in flags] + [("tp0", "steps", fl) for fl in flags]
      sel = fac if thorough else [fac[0], fac[(cidx + seed) % (len(fac) - 1) + 1]] + [x for x in fac if x[2] != "none" and x[0] == "plain"]
      for role, call, flag in sel:
        seedk = rng.next()
        d = (10.0, -7.0, 3.0); u = (0.3, -0.2, 0.1)
        try:
            o2 = dict(opts)
            if flag != "none":
                o2["safe_mode"] = 0     # flags are only interesting while the integrator is unsynchronised
            a = build(kind, integ, o2, (0, 0, 0), (0, 0, 0), SplitMix(seedk), role)
            b = build(kind, integ, o2, d, u, SplitMix(seedk), role)
            nst = 70 if kind == "approach" else 40
            worst = 0.0; where = None
            for st in range(nst):
                if flag != "none" and st % 7 == 3:
                    for sim_ in (a, b):
                        tgt = sim_.ri_whfast if flag.startswith("whfast:") else {"whfast": sim_.ri_whfast, "saba": sim_.ri_saba, "mercurius": sim_.ri_mercurius, "trace": sim_.ri_trace}[integ]
                        setattr(tgt, flag.split(":")[-1], 1)
                if call == "steps":
                    a.steps(1); b.steps(1)
                else:
                    tt = a.t + 0.83 * a.dt
                    a.integrate(tt); b.integrate(tt)
                if st % 5 == 4 or st == nst - 1:
                    a2 = a.copy(); b2 = b.copy(); a2.synchronize(); b2.synchronize()
                    t = a2.t
                    for i in range(a2.N):
                        pa, pb = a2.particles[i], b2.particles[i]
                        for c, (xa, xb) in enumerate(((pa.x, pb.x), (pa.y, pb.y), (pa.z, pb.z))):
                            e = abs(xb - (xa + d[c] + u[c] * t))
                            if e > worst:
                                worst = e; where = (st, i, c)
            cov.append(dict(integ=integ, opts=opts, kind=kind, role=role, call=call, flag=flag, worst=worst, where=where, t=a.t, steps_done=[a.steps_done, b.steps_done]))
        except Exception as e:
            cov.append(dict(integ=integ, opts=opts, kind=kind, role=role, call=call, flag=flag, error=repr(e)[:200]))
# first-step rejection scan: a pair starts just outside the critical radius and closes in during the very first step
# (the stored centre of mass is still the initial zero then); plus user frame shifts between steps
def approach_pair(sep, vclose, d, u):
    sim = rebound.Simulation()
    sim.add(m=1.0)
    sim.add(m=1e-3, x=1.0, vy=1.0)
    sim.add(m=1e-3, x=1.0 + sep, vy=(1.0 / (1.0 + sep)) ** 0.5, vx=-vclose)
    sim.add(m=1e-6, x=-3.0, vy=-0.57)
    sim.move_to_com()
    for p in sim.particles:
        p.x += d[0]; p.y += d[1]; p.z += d[2]; p.vx += u[0]; p.vy += u[1]; p.vz += u[2]
    return sim
for integ, opts in (("trace", {}), ("trace", dict(peri_mode="PARTIAL_BS")), ("mercurius", {})):
    worst = 0.0; where = None; nrun = 0
    d = (10.0, -7.0, 3.0); u = (0.3, -0.2, 0.1)
    for k in range(14):
        sep = 0.20 + 0.01 * k
        for vclose in (0.4, 1.2):
            try:
                a = approach_pair(sep, vclose, (0, 0, 0), (0, 0, 0)); b = approach_pair(sep, vclose, d, u)
                for sim in (a, b):
                    sim.integrator = integ; sim.dt = 0.05
                    ri = sim.ri_trace if integ == "trace" else sim.ri_mercurius
                    for kk, v in opts.items():
                        setattr(ri, kk, v)
                extra = 0.0
                for st in range(4):
                    a.steps(1); b.steps(1); nrun += 1
                    a2 = a.copy(); b2 = b.copy(); a2.synchronize(); b2.synchronize()
                    for i in range(a2.N):
                        pa, pb = a2.particles[i], b2.particles[i]
                        for c, (xa, xb) in enumerate(((pa.x, pb.x), (pa.y, pb.y), (pa.z, pb.z))):
                            e = abs(xb - (xa + d[c] + u[c] * a2.t + (extra if c == 0 else 0.0)))
                            if e > worst:
                                worst = e; where = (sep, vclose, st, i, c)
                    # the user shifts frame B between steps (a legal edit of a synchronised simulation)
                    b.synchronize()
                    for p in b.particles:
                        p.x += 0.125
                    extra += 0.125
                    if integ == "mercurius":
                        b.ri_mercurius.recalculate_coordinates_this_timestep = 1
            except Exception as e:
                cov.append(dict(integ=integ, opts=opts, kind="first-step-scan", error=repr(e)[:200]))
    cov.append(dict(integ=integ, opts=opts, kind="first-step-scan", worst=worst, where=where, t=0.2, steps_done=[nrun, nrun]))
print("RESULT " + json.dumps(dict(sites=out, cov=cov)))
