"""subprocess worker of the C12 search, run with LD_PRELOAD=<c12_trace.so>: drives real integrators
and prints, per configuration, the set of (N, N_active) pairs their call sites handed to the
reb_particles_transform_* routines within one run."""
import ctypes, json, os, sys
d, shim, seed = sys.argv[1], sys.argv[2], int(sys.argv[3])
sys.path.insert(0, os.path.dirname(os.path.abspath(__file__)))
from common import SplitMix, use_scratch_rebound
rebound = use_scratch_rebound(d)
tr = ctypes.CDLL(shim)
tr.rbv_trace_get.restype = ctypes.c_char_p
rng = SplitMix(seed)
out = []
configs = []
for coord in ("jacobi", "democraticheliocentric", "whds", "barycentric"):
    for corr in (0, 3, 11):
        for kernel in ("default", "modifiedkick", "composition", "lazy"):
            if kernel != "default" and coord != "jacobi":
                continue
            for c2 in (0, 1):
                if c2 and (coord != "jacobi" or corr == 0):
                    continue
                configs.append(("whfast", dict(coordinates=coord, corrector=corr, kernel=kernel, corrector2=c2)))
for ty in ("1", "4", "cl4", "cm2", "10,6,4", "h8,4,4"):
    configs.append(("saba", dict(type=ty)))
for integ, opts in configs:
    for safe in (1, 0):
        for split in ("all", "tp0", "tp1"):
            n = rng.randint(3, 6)
            sim = rebound.Simulation()
            sim.add(m=1.0)
            for i in range(1, n):
                sim.add(m=10 ** (-rng.uniform(3, 6)), a=1.0 + 0.6 * i, e=rng.uniform(0, 0.1), inc=rng.uniform(0, 0.05), f=rng.uniform(0, 6))
            sim.move_to_com()
            sim.integrator = integ
            sim.dt = 0.05
            ri = sim.ri_whfast if integ == "whfast" else sim.ri_saba
            for k, v in opts.items():
                setattr(ri, k, v)
            ri.safe_mode = safe
            if split != "all":
                sim.N_active = rng.randint(1, n - 1)
                sim.testparticle_type = 1 if split == "tp1" else 0
            tr.rbv_trace_reset()
            try:
                sim.steps(3)
                sim.synchronize()
            except Exception as e:
                out.append(dict(integ=integ, opts=opts, safe=safe, split=split, error=str(e)))
                continue
            calls = [l.split() for l in tr.rbv_trace_get().decode().splitlines()]
            pairs = sorted({(int(c[1]), int(c[2])) for c in calls})
            out.append(dict(integ=integ, opts=opts, safe=safe, split=split, N=n, N_active=sim.N_active,
                            tpt=sim.testparticle_type, ncalls=len(calls), pairs=pairs,
                            routines=sorted({c[0] for c in calls})))
print("RESULT " + json.dumps(out))
