"""C18 — the Python classes mirror the C structures and options exactly.

translate:  rv/extract_c18.py regenerates lean/RV/Gen/C18{LayoutC,LayoutPy,Options,Ref}.lean from the
            working tree (C: preprocessed header + compiler-measured offsets; Python: ctypes classes,
            option dictionaries, property/field usage of the scratch package)
proof:      lean/RV/Props/C18.lean — the kernel decides the matcher of RV/Model/Layout.lean over the WHOLE
            tables (layout by offset, sizes, names modulo renames, options forward / round trip / field
            tie, function-pointer options, counts) + soundness of the matcher for arbitrary tables
tie:        drv_c18 (the same matcher, native) names every disagreeing struct/field/option; its verdicts
            must coincide with what the executed sweep observes on the real objects
search:     exhaustive, on the real code: every named option set through the Python property and observed
            at the C offset (raw bytes, C-side table, not ctypes), read back by name; raw C enumerator
            values read back through Python; function-pointer options against exported symbol addresses;
            every field of every mirrored class written through Python / read at the offset of the C
            member OF THE SAME NAME and vice versa; the loaded library's own offsetof table
            (reb_binary_field_descriptor_list) against the probe's layout
"""
import ctypes, json, os, re, struct, subprocess, sys, tempfile
sys.path.insert(0, os.path.dirname(os.path.abspath(__file__)))
from common import *
import extract_c18 as X


def norm(s):
    return "".join(ch.lower() for ch in s if ch.isalnum())


class Ctx:
    pass


class warnings_off:
    def __enter__(self):
        import warnings
        self.cm = warnings.catch_warnings()
        self.cm.__enter__()
        warnings.simplefilter("ignore")

    def __exit__(self, *a):
        return self.cm.__exit__(*a)


def case_str(case):
    return ", ".join("%s=%s" % (k, v if k != "V" else "%s" % (v[1],)) + ("" if k != "V" else "@fam%d" % v[0]) for k, v in case.items())


def cm_struct(ref, cls):
    for e in ref["classmap"]:
        if e["class"] == cls:
            return e["struct"]
    return cls


def finding_key_for(c, kind, **kw):
    """stable key: the key of the findings/C18.jsonl entry whose lean_exceptions describe this
    disagreement, otherwise a generic key naming the struct/field/option"""
    for e in c.findings:
        for x in e.get("lean_exceptions", []):
            if x["kind"] != kind:
                continue
            if kind == "name" and (x["struct"], x["py"]) == (kw["struct"], kw["py"]):
                return e["key"]
            if kind == "layout" and (x["struct"], x["py"], x["why"]) == (kw["struct"], kw["py"], kw["why"]):
                return e["key"]
            if kind == "shadow" and (x["class"], x["field"]) == (kw["cls"], kw["field"]):
                return e["key"]
    if kind == "name":
        return "name:%s.%s" % (kw["struct"], kw["py"])
    if kind == "layout":
        return "layout-%s:%s.%s" % (kw["why"], kw["struct"], kw["py"])
    return "shadow:%s.%s" % (kw["cls"], kw["field"])


# ------------------------------------------------------------------------------- helpers on the C table
def cmember(cs, st, name):
    for m in cs["structs"][st]["members"]:
        if m["name"] == name:
            return m
    return None


def c_name_candidates(ref, st, pyname):
    out = [pyname]
    if pyname.startswith("_"):
        out.append(pyname[1:])
    for r in ref["renames"]:
        if r["struct"] == st and r["py"] == pyname:
            out.append(r["c"])
    return out


def corresponding(cs, ref, st, pyname, pykind):
    """the C member(s) a ctypes field corresponds to BY NAME (convention + committed renames);
    a ctypes array `x: T*n` may correspond to x0..x{n-1}"""
    for nm in c_name_candidates(ref, st, pyname):
        m = cmember(cs, st, nm)
        if m is not None:
            return [m]
    if pykind[0] == "arr":
        base = pyname[1:] if pyname.startswith("_") else pyname
        ms = [cmember(cs, st, base + str(i)) for i in range(pykind[2])]
        if ms and all(m is not None for m in ms):
            return ms
    return None


def raw(buf, off, size):
    return bytes(buf[off:off + size])


def pattern(tag, size, highbit):
    """distinctive, non-zero byte pattern depending on the field"""
    h = 0x9E3779B97F4A7C15
    for ch in tag:
        h = ((h ^ ord(ch)) * 0x100000001B3) & 0xFFFFFFFFFFFFFFFF
    b = bytearray(((h >> (8 * (i % 8))) & 0xFF) | 1 for i in range(size))
    if highbit:
        b[-1] |= 0x80
    else:
        b[-1] &= 0x7F
        b[-1] |= 1
    return bytes(b)


def scalar_from_bytes(kind, b):
    t = kind[0]
    if t == "int":
        return int.from_bytes(b, "little", signed=kind[1])
    if t == "enm":
        return int.from_bytes(b, "little", signed=False)
    if t == "f64":
        return struct.unpack("<d", b)[0]
    if t == "f32":
        return struct.unpack("<f", b)[0]
    return None


def run(c):
    # --replay <file>: the spaces are enumerated completely on every run, so replaying a recorded failing input is
    # running the check and looking for the same key again
    replay_key = None
    if "--replay" in sys.argv:
        with open(sys.argv[sys.argv.index("--replay") + 1]) as f:
            replay_key = json.load(f).get("key")
    seen_keys = []
    orig_violation = c.violation

    def violation(key, what, replay):
        seen_keys.append(key)
        return orig_violation(key, what, replay)
    c.violation = violation
    try:
        _run(c)
    finally:
        if replay_key is not None:
            c.log("REPLAY %s: %s" % (replay_key, "reproduced" if replay_key in seen_keys else "NOT reproduced (fixed or different tree)"))
            c.cov["replay"] = {"key": replay_key, "reproduced": replay_key in seen_keys}


def _run(c):
    d = build()
    work = tempfile.mkdtemp(prefix="c18.", dir=d)
    c.cov["trusted_base"] = ["Lean 4.33 kernel (decide +kernel over the generated tables)",
                             "gcc: offsetof/sizeof/_Generic of the generated probe program, same -D flags as the build (cross-checked against DWARF/gdb in the thorough tier)",
                             "CPython ctypes: field descriptors .offset/.size, from_buffer, string_at",
                             "rv/extract_c18.py: declaration parser of the preprocessed header (raises on anything it does not understand), AST walk of the property setters",
                             "ref/C18_classmap.json, C18_renames.json, C18_options.json (committed correspondence of classes, accepted renames, option families)"]
    c.assumptions += ["platform of the build (x86-64 LP64, gcc); other ABIs are not examined",
                      "a C enumeration may be mirrored by a ctypes integer of either signedness (the underlying type is the compiler's choice); all other integers must agree in signedness",
                      "c_void_p mirrors any data pointer; typed POINTER(T) must point to the class mapped to the C pointee",
                      "function-pointer members: return kind and number of arguments are compared, not the argument types"]
    # ---------------------------------------------------------------- translate
    c.log("extracting C and ctypes layouts")
    try:
        ex = X.extract(d, work, findings=c.findings, dwarf=c.thorough)
    except X.ParseError as e:
        raise Infra("C18 header parser: %s" % e)
    cs, py, ref = ex["c"], ex["py"], ex["ref"]
    import_patched = False
    if py.get("import_error"):
        # the package refuses to import (its own total-size check).  That IS a failing input; to name the
        # member, neutralise the check in OUR scratch copy and extract again.
        msg = py["import_error"]
        c.log("scratch package does not import:", msg)
        sp = os.path.join(d, "rebound", "simulation.py")
        src = open(sp).read()
        src2 = src.replace("if simulation_size_c != sizeof(Simulation):", "if False:")
        if src2 != src:
            open(sp, "w").write(src2)
            import_patched = True
            ex = X.extract(d, work, findings=c.findings, dwarf=c.thorough)
            cs, py = ex["c"], ex["py"]
        c.violation("import-fails", "`import rebound` raises %s" % msg[:200],
                    {"python": "import rebound", "error": msg,
                     "sizeof_struct_reb_simulation": cs["structs"].get("reb_simulation", {}).get("size")})
        if py.get("import_error"):
            c.broken.append("proof obligation: the ctypes tables cannot be generated: " + py["import_error"])
            return
    if ex["changed"]:
        c.log("regenerated", ex["changed"])
    c.cov["generated"] = {"c_structs": len(cs["structs"]), "c_members": sum(len(v["members"]) for v in cs["structs"].values()),
                          "c_enums": len(cs["enums"]), "c_enumerators": sum(len(v) for v in cs["enums"].values()),
                          "c_functions": len(cs["functions"]), "py_classes": len(py["classes"]),
                          "py_fields": sum(len(v["members"]) for v in py["classes"].values()),
                          "py_option_dicts": len(py["dicts"]), "py_option_names": sum(len(v["items"]) for v in py["dicts"].values()),
                          "py_fn_options": len(py["fnopts"])}
    if py.get("module_import_errors"):
        c.cov["modules_not_importable_in_sandbox"] = py["module_import_errors"]
        c.assumptions.append("modules not importable here are not walked: %s" % sorted(py["module_import_errors"]))
    # ---------------------------------------------------------------- prove
    ok = c.prove(["RV.Props.C18"])
    exe = lean_exe("drv_c18")
    drv = [l.split("\t") for l in run_driver(exe, [])]
    model_bad = set()      # (struct, pyfield, category) reported by the model
    model_names = set()
    full = {"layout": True, "names": True, "shadow": True, "ties": True}
    named = []
    for f in drv:
        if f[0] == "LAYOUT" and f[3] == "BAD":
            model_bad.add((f[2], f[4], f[6]))
            full["layout"] = False
            if f[7] != "true":
                named.append("layout %s.%s vs %s.%s: %s" % (f[1], f[4], f[2], f[5], f[6]))
        elif f[0] == "SIZE" and f[3] == "BAD":
            named.append("size %s=%s vs %s=%s" % (f[1], f[4], f[2], f[5]))
        elif f[0] in ("UNMAPPED", "MISSINGCLASS", "MISSINGSTRUCT"):
            named.append("%s %s" % (f[0].lower(), f[1]))
        elif f[0] == "NAME":
            model_names.add((f[1], f[2]))
            full["names"] = False
            if f[4] != "true":
                named.append("name %s.%s lies over C member %s" % (f[1], f[2], f[3]))
        elif f[0] == "OPT":
            kv = dict(x.split("=") for x in f[3:])
            if kv["forward"] != "true" or kv["roundtrip"] != "true":
                named.append("option dictionary %s vs %s" % (f[1], f[2]))
            if kv["tieget"] != "true" or kv["tieset"] != "true":
                full["ties"] = False
                if kv["shadow_known"] != "true":
                    named.append("property of %s does not touch the field over %s" % (f[1], f[2]))
        elif f[0] == "OPTBAD":
            named.append("option %s[%s]=%s has C candidates %s" % (f[1], f[2], f[3], f[4]))
        elif f[0] == "FNOPT" and f[5] != "ok":
            named.append("function option %s.%s=%s -> %s" % (f[1], f[2], f[3], f[4]))
        elif f[0] == "SHADOW":
            full["shadow"] = False
            if f[3] != "true":
                named.append("ctypes field %s.%s shadows a property" % (f[1], f[2]))
        elif f[0] == "CALLBACK" and f[3] != "ok":
            model_bad.add((cm_struct(ref, f[1]), f[2], "signature"))
            named.append("callback %s.%s signature" % (f[1], f[2]))
        elif f[0] == "RESTYPE" and f[3] != "ok" and not any(x.get("kind") == "call" and (x["fn"], x["site"]) == (f[1], f[2]) for e_ in c.findings if e_.get("status", "known") == "known" for x in e_.get("lean_exceptions", [])):
            named.append("restype declaration of %s at %s" % (f[1], f[2]))
        elif f[0] == "FNATTR" and f[4] != "true":
            named.append("stray attribute %s.%s at %s" % (f[1], f[3], f[2]))
        elif f[0] == "CALL" and f[5] != "true":
            named.append("call of %s at %s: %s" % (f[1], f[2], f[4]))
        elif f[0] == "STORE" and f[3] != "true":
            named.append("method of %s stores the attribute %r, which is neither a ctypes field nor a property nor a committed Python-only attribute" % (f[1], f[2]))
        elif f[0] in ("DESCR", "WARN", "ENUMFIELD"):
            named.append(" ".join(f))
        elif f[0] == "COUNT" and int(f[2]) < int(f[3]):
            named.append("extraction found %s %s < floor %s" % (f[2], f[1], f[3]))
    c.cov["full_strength_statements_hold"] = full
    c.cov["model_named_disagreements"] = named
    if named:
        c.log("model names:", named[:6])
    if not ok:
        c._corr_detail = {"named_by_drv_c18": named}

    # ---------------------------------------------------------------- the real objects
    try:
        rebound = use_scratch_rebound(d)
    except Exception as e:
        c.violation("import-fails", "`import rebound` raises %s: %s" % (type(e).__name__, str(e)[:200]),
                    {"python": "import rebound", "error": "%s: %s" % (type(e).__name__, e)})
        return
    clib = rebound.clibrebound
    cm = {e["class"]: e for e in ref["classmap"]}
    classes = {}
    import importlib
    for cname, v in py["classes"].items():
        classes[cname] = getattr(importlib.import_module(v["module"]), cname)

    exec_bad, exec_names = set(), set()
    rule = []

    # ================================================================ (d) the loaded library's own layout
    # reb_binary_field_descriptor_list carries offsetof() values computed INSIDE the library: the probe's
    # table must describe the library that is actually loaded
    _h = ctypes.CDLL(clib._name)        # own handle: do not touch the restype state of the package's function objects
    _h.reb_simulation_struct_size.restype = ctypes.c_size_t
    libsize = _h.reb_simulation_struct_size()
    c.count(("libsize",))
    if libsize != cs["structs"]["reb_simulation"]["size"]:
        c.corr_break("probe sizeof(struct reb_simulation)=%d but the loaded library says %d" % (cs["structs"]["reb_simulation"]["size"], libsize))
    bfd = cs["structs"]["reb_binary_field_descriptor"]
    o_name, o_off, o_dtype, o_type = (cmember(cs, "reb_binary_field_descriptor", n) for n in ("name", "offset", "dtype", "type"))
    base = ctypes.addressof(ctypes.c_char.in_dll(clib, "reb_binary_field_descriptor_list"))
    ndesc = nres = 0
    lib_mismatch = []
    for i in range(2000):
        p = base + i * bfd["size"]
        nm = ctypes.string_at(p + o_name["off"], o_name["size"]).split(b"\0")[0].decode()
        off = int.from_bytes(ctypes.string_at(p + o_off["off"], o_off["size"]), "little")
        if nm == "end":
            break
        ndesc += 1
        st, tot, okp = "reb_simulation", 0, True
        parts = nm.split(".")
        for k, part in enumerate(parts):
            m = cmember(cs, st, part)
            if m is None:
                okp = False
                break
            tot += m["off"]
            if k < len(parts) - 1:
                if m["kind"][0] != "struct":
                    okp = False
                    break
                st = m["kind"][1]
        if not okp:
            continue          # descriptor names that are not member paths (e.g. "particles" payloads keep their own name) are skipped
        nres += 1
        c.count(("libdesc", nm))
        if tot != off:
            lib_mismatch.append((nm, off, tot))
    c.cov["library_descriptors"] = {"total": ndesc, "resolved_as_member_paths": nres, "offset_mismatches": len(lib_mismatch)}
    if lib_mismatch:
        c.corr_break("the loaded library's offsetof table disagrees with the probe layout for %s" % lib_mismatch[:3], lib_mismatch[:10])
    if nres < 100:
        c.corr_break("only %d of %d library descriptors could be resolved as member paths" % (nres, ndesc))

    # ================================================================ (c) every field of every mirrored class
    rule.append("every ctypes field of every mirrored class: distinctive byte pattern written through the Python attribute on a zeroed "
                "from_buffer instance and read at the offset of the C member of the same name (C-side table), and written at the C offset "
                "and read through Python (integers once with the top bit set: signedness); embedded structs/arrays: address and size; "
                "typed pointers: pointee class vs C pointee")
    field_cases = 0
    sampled = set()
    scratchmem = ctypes.create_string_buffer(b"c18\0".ljust(16, b"\0") * 64, 16 * 64)
    for cname, cls in classes.items():
        if cname not in cm:
            c.violation("unmapped-class:" + cname, "ctypes class %s has no entry in ref/C18_classmap.json" % cname, {"class": cname})
            continue
        st = cm[cname]["struct"]
        if st not in cs["structs"]:
            c.violation("missing-struct:" + st, "C structure %s (mirrored by %s) not found in the header" % (st, cname), {"class": cname})
            continue
        csz = cs["structs"][st]["size"]
        psz = ctypes.sizeof(cls)
        c.count(("size", cname))
        if (psz != csz) if not cm[cname].get("prefix") else (psz > csz):
            c.violation("size:" + cname, "sizeof(%s)=%d but sizeof(struct %s)=%d" % (cname, psz, st, csz),
                        {"python": "ctypes.sizeof(rebound.%s)" % cname, "got": psz, "c": csz})
        n = max(psz, csz)
        for fld in py["classes"][cname]["members"]:
            fname, pk = fld["name"], fld["kind"]
            field_cases += 1
            ms = corresponding(cs, ref, st, fname, pk)
            if ms is None:
                # no C member of that name: which member does it lie over?
                over = [m["name"] for m in cs["structs"][st]["members"] if m["off"] == fld["off"]]
                exec_names.add((st, fname))
                c.violation(finding_key_for(c, "name", struct=st, py=fname),
                            "%s.%s has no C member of that name in struct %s (it lies over %s)" % (cname, fname, st, over),
                            {"class": cname, "field": fname, "offset": fld["off"], "c_members_at_offset": over})
                continue
            m0 = ms[0]
            coff = m0["off"]
            ctot = sum(m["size"] for m in ms)
            buf = bytearray(n)
            obj = cls.from_buffer(buf)
            key = (cname, fname)
            leaf_py = pk[1] if (pk[0] == "arr") else pk
            nelem = pk[2] if pk[0] == "arr" else 1

            def report(why, detail):
                k = finding_key_for(c, "layout", struct=st, py=fname, why=why) if why in ("sign", "pointee", "offset", "size", "kind") else "field-%s:%s.%s" % (why, st, fname)
                if why == "offset" and any(mm["off"] == fld["off"] for mm in cs["structs"][st]["members"]):
                    # same bytes as a DIFFERENTLY named member: a naming (permutation) defect
                    k = finding_key_for(c, "name", struct=st, py=fname)
                    exec_names.add((st, fname))
                else:
                    exec_bad.add((st, fname, why))
                c.violation(k, "%s.%s vs struct %s.%s: %s" % (cname, fname, st, m0["name"], detail),
                            dict(detail=detail, **{"class": cname, "field": fname, "c_member": m0["name"], "c_offset": coff,
                                                   "py_offset": fld["off"], "c_size": ctot, "py_size": fld["size"]}))

            if fld["off"] != coff:
                # replay on the real object: write through Python, look at the bytes of the C member of that name
                obs = ""
                if pk[0] in ("int", "f64") and m0["size"] <= n - coff:
                    val = 0x11 if pk[0] == "int" else 1.5
                    setattr(obj, fname, val)
                    landed = [mm["name"] for mm in cs["structs"][st]["members"] if any(buf[mm["off"]:mm["off"] + mm["size"]])]
                    obs = "; replay: o = %s.from_buffer(bytearray(%d)); o.%s = %r -> bytes of struct %s.%s at offset %d are %s, the value landed in C member(s) %s" % (
                        cname, n, fname, val, st, m0["name"], coff, raw(buf, coff, m0["size"]).hex(), landed)
                report("offset", "Python offset %d, C offset %d: writing %s.%s does not touch the bytes of %s%s" % (fld["off"], coff, cname, fname, m0["name"], obs))
                c.count(key)
                continue
            if fld["size"] != ctot:
                report("size", "Python size %d, C size %d" % (fld["size"], ctot))
                c.count(key)
                continue
            # leaves
            if leaf_py[0] in ("int", "f64", "f32"):
                es = fld["size"] // nelem
                for j in range(nelem):
                    mj = ms[j] if len(ms) == nelem and nelem > 1 else m0
                    ck = mj["kind"][1] if mj["kind"][0] == "arr" else mj["kind"]
                    eoff = (mj["off"] if len(ms) > 1 else m0["off"] + j * es)
                    for high in (False, True):
                        b = pattern("%s.%s.%d" % (cname, fname, j), es, high)
                        if leaf_py[0] == "f64":
                            b = struct.pack("<d", struct.unpack("<d", b[:7] + bytes([0x3F if not high else 0xBF]))[0])
                        if leaf_py[0] == "f32":
                            b = b[:3] + bytes([0x3F if not high else 0xBF])
                        pv = scalar_from_bytes(leaf_py, b)      # the value Python must see for these bytes
                        # Python -> bytes at the C offset
                        for k in range(n):
                            buf[k] = 0
                        if nelem > 1 or pk[0] == "arr":
                            getattr(obj, fname)[j] = pv
                        else:
                            setattr(obj, fname, pv)
                        got = raw(buf, eoff, es)
                        c.count((cname, fname, j, "w", high))
                        if got != b:
                            report("kind", "wrote %r through Python, bytes at C offset %d are %s, expected %s" % (pv, eoff, got.hex(), b.hex()))
                        others = bytes(buf[:eoff]) + bytes(buf[eoff + es:])
                        if any(others):
                            report("kind", "writing %s.%s through Python also changed bytes outside the C member" % (cname, fname))
                        # bytes at the C offset -> Python, interpreted with the C kind
                        for k in range(n):
                            buf[k] = 0
                        buf[eoff:eoff + es] = b
                        cv = scalar_from_bytes(ck, b)
                        gv = getattr(obj, fname)[j] if (nelem > 1 or pk[0] == "arr") else getattr(obj, fname)
                        c.count((cname, fname, j, "r", high))
                        if ck[0] == "enm":
                            same = (gv % (1 << (8 * es))) == cv
                        elif ck[0] in ("int", "f64", "f32"):
                            same = (gv == cv) and ck[0] == leaf_py[0]
                        else:
                            same = False
                        if not same:
                            why = "sign" if (ck[0] == "int" and leaf_py[0] == "int" and es == ck[2]) else "kind"
                            report(why, "bytes %s at C offset %d are %r in C (%s) but Python reads %r" % (b.hex(), eoff, cv, ck, gv))
                        if high and j == 0 and len(c.cov["samples"]) < 6 and cname not in sampled and fname not in ("t",):
                            sampled.add(cname)
                            c.sample({"class": cname, "field": fname, "c_member": mj["name"], "c_offset": eoff, "bytes": b.hex(), "python_reads": gv, "c_value": cv})
            elif leaf_py[0] == "chr":
                b = pattern(cname + fname, fld["size"] - 1, False)
                setattr(obj, fname, b)
                c.count((cname, fname, "w"))
                if raw(buf, coff, fld["size"] - 1) != b or m0["kind"] != ["arr", ["chr"], fld["size"]]:
                    report("kind", "char array written through Python is not at the C offset / C member is %s" % m0["kind"])
            elif leaf_py[0] == "struct":
                sub = getattr(obj, fname)
                es = fld["size"] // nelem
                for j in range(nelem):
                    e = sub[j] if pk[0] == "arr" else sub
                    a = ctypes.addressof(e) - ctypes.addressof(obj)
                    c.count((cname, fname, j, "addr"))
                    ck = m0["kind"][1] if m0["kind"][0] == "arr" else m0["kind"]
                    want = cm.get(leaf_py[1], {}).get("struct")
                    if a != coff + j * es or ctypes.sizeof(e) != es:
                        report("offset", "embedded %s at Python offset %d size %d, C offset %d" % (leaf_py[1], a, ctypes.sizeof(e), coff + j * es))
                    elif ck[0] != "struct" or ck[1] != want:
                        report("kind", "embedded class %s mirrors struct %s but the C member is %s" % (leaf_py[1], want, ck))
            elif leaf_py[0] in ("ptr", "fptr"):
                # a real address (c_char_p getters dereference): a scratch block holding a C string
                b = (ctypes.addressof(scratchmem) + 16 * (field_cases % 64)).to_bytes(8, "little")
                buf[coff:coff + 8] = b
                v = getattr(obj, fname)
                pvv = (ctypes.addressof(scratchmem) + 16 * (field_cases % 64)) if (isinstance(v, bytes) and v == b"c18") \
                    else ctypes.cast(v, ctypes.c_void_p).value
                c.count((cname, fname, "r"))
                if pvv != int.from_bytes(b, "little"):
                    report("kind", "pointer bytes %s at C offset %d read back as %r" % (b.hex(), coff, pvv))
                ck = m0["kind"]
                if (ck[0] == "fptr") != (leaf_py[0] == "fptr") or ck[0] not in ("ptr", "fptr"):
                    report("kind", "Python declares %s, C member is %s" % (leaf_py[0], ck))
                elif leaf_py[0] == "fptr" and (ck[2] != leaf_py[2] or ck[1][0] != leaf_py[1][0]):
                    report("signature", "Python CFUNCTYPE returns %s with %d arguments, C returns %s with %d" % (leaf_py[1], leaf_py[2], ck[1], ck[2]))
                elif leaf_py[0] == "ptr" and leaf_py[1] != ["void"]:
                    # typed pointer: pointee must be the class mapped to the C pointee (depth by depth)
                    pp, cp = leaf_py[1], ck[1]
                    while pp[0] == "ptr" and cp[0] == "ptr":
                        pp, cp = pp[1], cp[1]
                    if pp[0] == "struct":
                        want = cm.get(pp[1], {}).get("struct")
                        if cp != ["struct", want]:
                            psize = ctypes.sizeof(classes[pp[1]]) if pp[1] in classes else None
                            csize = cs["structs"].get(cp[1] if cp[0] == "struct" else "", {}).get("size")
                            report("pointee", "POINTER(%s) (mirrors struct %s, %s bytes) but the C member points to %s (%s bytes)" % (pp[1], want, psize, cp, csize))
                    elif pp != cp and not (pp[0] == "int" and cp[0] == "int" and pp[1:] == cp[1:]):
                        report("pointee", "Python pointee %s, C pointee %s" % (pp, cp))
            else:
                report("kind", "unsupported ctypes kind %s" % (pk,))
            del obj
    c.cov["field_cases"] = field_cases

    # a C member of a fully mirrored structure that no ctypes field covers
    for cname in classes:
        if cname not in cm or cm[cname].get("prefix") or cm[cname]["struct"] not in cs["structs"]:
            continue
        st = cm[cname]["struct"]
        covered = set()
        for fld in py["classes"][cname]["members"]:
            covered.update(range(fld["off"], fld["off"] + fld["size"]))
        for m in cs["structs"][st]["members"]:
            c.count(("cover", st, m["name"]))
            if not set(range(m["off"], m["off"] + m["size"])) <= covered:
                exec_bad.add((st, "", "not-mirrored"))
                c.violation("not-mirrored:%s.%s" % (st, m["name"]), "C member %s.%s (offset %d) is not covered by any field of %s" % (st, m["name"], m["off"], cname),
                            {"struct": st, "member": m["name"], "offset": m["off"], "class": cname})

    # ================================================================ (a) named options, exhaustively
    rule.append("every (family, name) of the 9 option dictionaries: set through the Python property on a fresh Simulation, raw bytes at the "
                "C offset of the member compared with the C enumerator of the same meaning (matched by name in the C enum table), read back "
                "through Python; every C enumerator value poked at the C offset and read through the property; integer assignment; SABA shortcuts")
    simst = cs["structs"]["reb_simulation"]

    def locate(fam):
        """-> (getter of the Python object holding the property, absolute C offset, size)"""
        if fam["struct"] == "reb_simulation":
            m = cmember(cs, "reb_simulation", fam["member"])
            return (lambda s: s), m["off"], m["size"], m
        emb = [m for m in simst["members"] if m["kind"] == ["struct", fam["struct"]]]
        pyf = [f for f in py["classes"]["Simulation"]["members"] if f["kind"] == ["struct", fam["class"]]]
        m = cmember(cs, fam["struct"], fam["member"])
        return (lambda s: getattr(s, pyf[0]["name"])), emb[0]["off"] + m["off"], m["size"], m

    def cbytes(sim, off, size):
        return int.from_bytes(ctypes.string_at(ctypes.addressof(sim) + off, size), "little")

    opt_cases = 0
    for fam in ref["options"]:
        holder, off, size, m = locate(fam)
        if m["kind"][0] != "enm":
            c.violation("option-member-not-enum:" + fam["dict"], "C member %s.%s is not an enumeration" % (fam["struct"], fam["member"]), fam)
            continue
        enum = dict(cs["enums"][m["kind"][1]])
        items = py["dicts"].get(fam["dict"], {}).get("items", [])
        byname = {}
        for en, ev in enum.items():
            if en.startswith(fam["prefix"]):
                byname.setdefault(norm(en[len(fam["prefix"]):]), []).append((en, ev))
        for name, pyval in items:
            opt_cases += 1
            cand = byname.get(norm(name), [])
            what = "%s.%s = %r" % (fam["class"], fam["property"], name)
            if len(cand) != 1:
                c.violation("option-name:%s:%s" % (fam["dict"], name), "%s: C enumerators of that meaning: %s" % (what, [x[0] for x in cand]),
                            {"dict": fam["dict"], "name": name, "candidates": cand})
                continue
            en, ev = cand[0]
            # the dictionary's own value for this name, stored through the attribute as an integer, must be seen by C as
            # the enumerator of that name (also exercised when the named path is broken, e.g. a shadowed property)
            sim2 = rebound.Simulation()
            o2 = holder(sim2)
            c.count(("optint", fam["dict"], fam["property"], name))
            try:
                setattr(o2, fam["property"], int(pyval))
                got2 = cbytes(sim2, off, size)
                if got2 != ev % (1 << (8 * size)):
                    c.violation("option-dictvalue:%s:%s" % (fam["dict"], name),
                                "%s[%r] = %d, stored through %s.%s, is seen by C as %d at %s.%s; %s = %d" % (fam["dict"], name, pyval, fam["class"], fam["property"], got2, fam["struct"], fam["member"], en, ev),
                                {"python": "obj.%s = %s[%r]  # = %d" % (fam["property"], fam["dict"], name, pyval), "c_offset": off, "got": got2, "enumerator": en, "value": ev})
            except Exception as e:
                c.violation("option-int-raises:%s" % fam["dict"], "%s.%s = %d raises %s" % (fam["class"], fam["property"], pyval, e), {"value": pyval})
            del sim2
            sim = rebound.Simulation()
            obj = holder(sim)
            before = cbytes(sim, off, size)
            c.count(("opt", fam["dict"], fam["property"], name))
            try:
                setattr(obj, fam["property"], name)
            except Exception as e:
                k = finding_key_for(c, "shadow", cls=fam["class"], field=fam["property"]) if fam["property"] in py["classes"][fam["class"]].get("shadowed", []) \
                    else "option-set-raises:%s.%s" % (fam["class"], fam["property"])
                c.violation(k, "%s raises %s: %s" % (what, type(e).__name__, str(e)[:120]),
                            {"python": "sim = rebound.Simulation(); sim%s.%s = %r" % ("" if fam["struct"] == "reb_simulation" else ".<%s field>" % fam["class"], fam["property"], name),
                             "error": "%s: %s" % (type(e).__name__, e)})
                continue
            got = cbytes(sim, off, size)
            if got != ev % (1 << (8 * size)):
                c.violation("option-value:%s:%s" % (fam["dict"], name), "%s stores %d at the C offset of %s.%s (offset %d); %s = %d" % (what, got, fam["struct"], fam["member"], off, en, ev),
                            {"python": what, "c_offset": off, "got": got, "enumerator": en, "value": ev, "before": before})
            back = getattr(obj, fam["property"])
            if back != name:
                k = finding_key_for(c, "shadow", cls=fam["class"], field=fam["property"]) if fam["property"] in py["classes"][fam["class"]].get("shadowed", []) \
                    else "option-readback:%s:%s" % (fam["dict"], name)
                c.violation(k, "%s reads back %r" % (what, back), {"python": what, "read_back": back})
            del sim
        # every C enumerator poked at the C offset, read through Python
        rev = {}
        for name, pyval in items:
            rev.setdefault(norm(name), name)
        for en, ev in enum.items():
            if not en.startswith(fam["prefix"]):
                continue
            sim = rebound.Simulation()
            ctypes.memmove(ctypes.addressof(sim) + off, (ev % (1 << (8 * size))).to_bytes(size, "little"), size)
            c.count(("enumread", fam["dict"], fam["property"], en))
            want = rev.get(norm(en[len(fam["prefix"]):]))
            back = getattr(holder(sim), fam["property"])
            if want is not None and back != want:
                k = finding_key_for(c, "shadow", cls=fam["class"], field=fam["property"]) if fam["property"] in py["classes"][fam["class"]].get("shadowed", []) \
                    else "option-enumread:%s:%s" % (fam["dict"], en)
                c.violation(k, "C value %s=%d at %s.%s reads through %s.%s as %r, expected %r" % (en, ev, fam["struct"], fam["member"], fam["class"], fam["property"], back, want),
                            {"enumerator": en, "value": ev, "read": back, "expected": want})
            if want is None:
                c.cov.setdefault("c_enumerators_without_python_name", []).append(en)
            del sim
    # ---- order independence: every ordered pair (previous setting A -> new setting B) on the SAME simulation, B given by
    # name (as in the dictionary and upper-cased where the setter normalises case) and by integer; the C bytes must be B's
    # enumerator and the property must read back B whatever A was (a setter that drops a write - e.g. `if value:` for the
    # value 0 - is invisible on a fresh simulation whose default already is B)
    rule.append("order independence: for every family all k^2 ordered pairs (set A, then set B by name / by integer on the same simulation; "
                "C bytes and read-back must be B's)")
    pair_cases = 0
    for fam in ref["options"]:
        holder, off, size, m = locate(fam)
        if m["kind"][0] != "enm":
            continue
        enum = dict(cs["enums"][m["kind"][1]])
        items = py["dicts"].get(fam["dict"], {}).get("items", [])
        cval = {}
        for name, pyval in items:
            cand = [ev for en, ev in enum.items() if en.startswith(fam["prefix"]) and norm(en[len(fam["prefix"]):]) == norm(name)]
            if len(cand) == 1:
                cval[name] = cand[0] % (1 << (8 * size))
        # does the setter normalise case?  (decided on the real code: the upper-cased spelling is accepted on a fresh sim)
        def accepts(sp):
            try:
                s0 = rebound.Simulation()
                setattr(holder(s0), fam["property"], sp)
                return True
            except Exception:
                return False
        for a_name, a_val in items:
            if a_name not in cval:
                continue
            for b_name, b_val in items:
                if b_name not in cval:
                    continue
                spellings = [("name", b_name), ("int", int(b_val))]
                if b_name.upper() != b_name and accepts(b_name.upper()):
                    spellings.append(("NAME", b_name.upper()))
                for how, b_in in spellings:
                    sim = rebound.Simulation()
                    obj = holder(sim)
                    pair_cases += 1
                    c.count(("pair", fam["dict"], fam["property"], a_name, b_name, how), nontrivial=(a_name != b_name))
                    try:
                        setattr(obj, fam["property"], a_name)
                        if cbytes(sim, off, size) != cval[a_name]:
                            continue      # the first assignment itself is wrong: reported by the single-step sweep
                        setattr(obj, fam["property"], b_in)
                    except Exception as e:
                        if fam["property"] in py["classes"][fam["class"]].get("shadowed", []):
                            continue
                        c.violation("option-sequence-raises:%s.%s" % (fam["class"], fam["property"]),
                                    "%s.%s = %r then = %r raises %s: %s" % (fam["class"], fam["property"], a_name, b_in, type(e).__name__, str(e)[:100]),
                                    {"python": "o.%s = %r; o.%s = %r" % (fam["property"], a_name, fam["property"], b_in)})
                        continue
                    got = cbytes(sim, off, size)
                    back = getattr(obj, fam["property"])
                    if got != cval[b_name] or back != b_name:
                        c.violation("option-after-previous:%s.%s=%s" % (fam["class"], fam["property"], b_name),
                                    "%s.%s = %r, then = %r on the same simulation: C sees %d at %s.%s (expected %d), reads back %r"
                                    % (fam["class"], fam["property"], a_name, b_in, got, fam["struct"], fam["member"], cval[b_name], back),
                                    {"python": "sim = rebound.Simulation(); o = <%s of sim>; o.%s = %r; o.%s = %r" % (fam["class"], fam["property"], a_name, fam["property"], b_in),
                                     "c_offset": off, "c_bytes_after": got, "expected": cval[b_name], "read_back": back, "previous": a_name})
                    del sim
    c.cov["option_pair_cases"] = pair_cases
    # ---- composite names: a name whose branch assigns several C fields (WH, WHC, WHCKL, … ; SABA spellings) stands for a TUPLE of
    # C values.  For all ordered pairs (any accepted name A, composite B) on one simulation, every field that B's branch or a sibling
    # branch selecting the same primary value assigns must end up as on a fresh simulation set to B.
    rule.append("composite option names (setter branches assigning >= 2 C fields, found by AST): all ordered pairs (A, B) on one simulation; every C field "
                "assigned by B's branch or a sibling with the same primary value must equal its value on a fresh simulation set to B")

    def resolve_path(cname, parts, base=0):
        """ctypes attribute path of class cname -> (absolute C offset, size) of the C member it ends in, or None"""
        st = cm.get(cname, {}).get("struct")
        if st is None or st not in cs["structs"]:
            return None
        first = parts[0]
        fam = [f for f in ref["options"] if f["class"] == cname and f["property"] == first]
        if fam and len(parts) == 1:
            m_ = cmember(cs, fam[0]["struct"], fam[0]["member"])
            return (base + m_["off"], m_["size"]) if m_ else None
        fld = [f for f in py["classes"][cname]["members"] if f["name"] == first]
        if not fld:
            # a property that reads/writes exactly one ctypes field
            cand = {a for p_ in py["props"] if p_["cls"] == cname and p_["prop"] == first for a in p_["attrs"]
                    if any(f["name"] == a for f in py["classes"][cname]["members"])}
            if len(cand) == 1 and len(parts) == 1:
                return resolve_path(cname, [cand.pop()], base)
            return None
        ms_ = corresponding(cs, ref, st, first, fld[0]["kind"])
        if not ms_:
            return None
        if len(parts) == 1:
            return (base + ms_[0]["off"], sum(x["size"] for x in ms_))
        if fld[0]["kind"][0] == "struct":
            return resolve_path(fld[0]["kind"][1], parts[1:], base + ms_[0]["off"])
        return None

    comp_cases = 0
    by_setter = {}
    for x in py.get("composites", []):
        by_setter.setdefault((x["cls"], x["prop"]), []).append(x)
    for (ccls, cprop), rows_ in by_setter.items():
        if ccls != "Simulation":
            continue          # composite setters of embedded classes would need a holder path; none exist today
        comps = {}
        for x in rows_:
            leaves = {}
            for pth, _lit in x["stores"]:
                r_ = resolve_path(ccls, pth.split("."))
                if r_ is not None:
                    leaves[pth] = r_
            if len(leaves) >= 2:
                comps[x["name"]] = leaves
        if not comps:
            continue
        prim = resolve_path(ccls, [cprop])

        def fresh(name):
            s_ = rebound.Simulation()
            setattr(s_, cprop, name)
            return s_
        fresh_sims, primval = {}, {}
        for nm_ in comps:
            try:
                fresh_sims[nm_] = fresh(nm_)
                primval[nm_] = cbytes(fresh_sims[nm_], *prim) if prim else None
            except Exception as e:
                c.violation("composite-raises:%s.%s=%s" % (ccls, cprop, nm_), "%s.%s = %r raises %s" % (ccls, cprop, nm_, e), {"name": nm_})
        # SABA-style spellings are composites too (integrator + ri_saba.type); prefix branch, not a literal
        extra = {}
        if cprop == "integrator" and "SABA_TYPES" in py["dicts"]:
            lv = {"integrator": resolve_path(ccls, ["integrator"]), "ri_saba.type": resolve_path(ccls, ["ri_saba", "type"])}
            if all(lv.values()):
                for nm_, _v in py["dicts"]["SABA_TYPES"]["items"]:
                    extra["saba" + nm_] = lv
        for nm_, lv in extra.items():
            try:
                fresh_sims[nm_] = fresh(nm_)
                primval[nm_] = cbytes(fresh_sims[nm_], *prim) if prim else None
            except Exception:
                pass
        allc = dict(comps)
        allc.update(extra)
        firsts = list(allc) + [n_ for f_ in ref["options"] if f_["class"] == ccls and f_["property"] == cprop
                               for n_, _ in py["dicts"].get(f_["dict"], {}).get("items", [])]
        for b_ in allc:
            if b_ not in fresh_sims:
                continue
            fields = {}
            for o_, lv in allc.items():
                if o_ in primval and primval[o_] == primval[b_]:
                    fields.update(lv)
            for a_ in firsts:
                for b_in in (b_, b_.upper()):
                    sim = rebound.Simulation()
                    comp_cases += 1
                    c.count(("composite", ccls, cprop, a_, b_in), nontrivial=(a_ != b_))
                    try:
                        setattr(sim, cprop, a_)
                        setattr(sim, cprop, b_in)
                    except Exception as e:
                        c.violation("composite-raises:%s.%s=%s" % (ccls, cprop, b_), "%s.%s = %r then = %r raises %s" % (ccls, cprop, a_, b_in, e), {"python": "sim.%s = %r; sim.%s = %r" % (cprop, a_, cprop, b_in)})
                        continue
                    diff = {pth: (cbytes(sim, *loc), cbytes(fresh_sims[b_], *loc)) for pth, loc in fields.items()
                            if cbytes(sim, *loc) != cbytes(fresh_sims[b_], *loc)}
                    if diff:
                        c.violation("composite-after-previous:%s.%s=%s" % (ccls, cprop, b_),
                                    "%s.%s = %r, then = %r on the same simulation: C fields %s differ from a fresh simulation set to %r (after sequence, fresh)"
                                    % (ccls, cprop, a_, b_in, diff, b_),
                                    {"python": "sim = rebound.Simulation(); sim.%s = %r; sim.%s = %r" % (cprop, a_, cprop, b_in),
                                     "fields_after_sequence_vs_fresh": {k: list(v) for k, v in diff.items()}, "c_locations": {k: list(fields[k]) for k in diff}})
                    del sim
    c.cov["composite_pair_cases"] = comp_cases
    c.cov["composite_names"] = sorted(n_ for rows_ in by_setter.values() for n_ in {x["name"] for x in rows_ if len(x["stores"]) >= 2})

    # SABA shortcuts:  sim.integrator = "saba" + type
    fam_i = [f for f in ref["options"] if f["dict"] == "INTEGRATORS"]
    fam_s = [f for f in ref["options"] if f["dict"] == "SABA_TYPES"]
    if fam_i and fam_s and "SABA_TYPES" in py["dicts"]:
        _, offi, szi, mi = locate(fam_i[0])
        _, offs, szs, ms_ = locate(fam_s[0])
        ei = dict(cs["enums"][mi["kind"][1]])
        es_ = dict(cs["enums"][ms_["kind"][1]])
        for name, _v in py["dicts"]["SABA_TYPES"]["items"]:
            for spelled in ("saba" + name, "SABA(" + name.upper() + ")" if "," in name else "SABA" + name.upper()):
                sim = rebound.Simulation()
                c.count(("sabashort", spelled))
                try:
                    sim.integrator = spelled
                except Exception as e:
                    c.violation("option-shortcut:" + spelled, "sim.integrator = %r raises %s" % (spelled, e), {"python": "sim.integrator = %r" % spelled})
                    continue
                cand = [v for k, v in es_.items() if k.startswith(fam_s[0]["prefix"]) and norm(k[len(fam_s[0]["prefix"]):]) == norm(name)]
                if cbytes(sim, offi, szi) != ei.get("REB_INTEGRATOR_SABA") or len(cand) != 1 or cbytes(sim, offs, szs) != cand[0]:
                    c.violation("option-shortcut:" + spelled, "sim.integrator = %r stores integrator=%d, ri_saba.type=%d" % (spelled, cbytes(sim, offi, szi), cbytes(sim, offs, szs)),
                                {"python": "sim.integrator = %r" % spelled, "expected_type": cand})
                del sim
    c.cov["option_cases"] = opt_cases

    # ================================================================ (b) function-pointer options
    rule.append("every named function-pointer option (collision resolvers, MERCURIUS L, TRACE S/S_peri): pointer bytes at the C offset equal the address of the exported symbol prefix+name")
    for fo in py["fnopts"]:
        fams = [f for f in ref["fn_options"] if f["class"] == fo["cls"] and f["property"] == fo["prop"]]
        syms = [s for s in fo["symbols"] if s not in ref["fn_setter_helpers"]]
        key = "fnopt:%s.%s=%s" % (fo["cls"], fo["prop"], fo["name"])
        c.count(key)
        if not fams or len(syms) != 1:
            c.violation(key, "function option %s.%s=%r: no family / symbols %s" % (fo["cls"], fo["prop"], fo["name"], syms), fo)
            continue
        fam = fams[0]
        holder, off, size, m = locate({"struct": fam["struct"], "member": fam["member"], "class": fam["class"]})
        sim = rebound.Simulation()
        try:
            setattr(holder(sim), fo["prop"], fo["name"])
        except Exception as e:
            c.violation(key, "%s.%s = %r raises %s" % (fo["cls"], fo["prop"], fo["name"], e), fo)
            continue
        got = cbytes(sim, off, size)
        want_sym = fam["prefix"] + fo["name"]
        try:
            addr = ctypes.cast(getattr(clib, want_sym), ctypes.c_void_p).value
        except AttributeError:
            addr = None
        if addr is None or got != addr or m["kind"][0] != "fptr":
            c.violation(key, "%s.%s = %r stores %#x at %s.%s; &%s = %s" % (fo["cls"], fo["prop"], fo["name"], got, fam["struct"], fam["member"], want_sym, hex(addr) if addr else None),
                        {"python": "%s.%s = %r" % (fo["cls"], fo["prop"], fo["name"]), "stored": got, "symbol": want_sym, "address": addr})
        del sim

    # ---- independent of how the setter is written (if-chain, table, …): every C function declared with the family's prefix is tried
    # as an option name; a name the setter accepts must store exactly that function
    rule.append("function-pointer options, setter-agnostic: every header function prefix+X is tried as option name X; if the property accepts it, the stored pointer must be &prefix+X")
    for fam in ref["fn_options"]:
        holder, off, size, m = locate({"struct": fam["struct"], "member": fam["member"], "class": fam["class"]})
        known = {fo["name"] for fo in py["fnopts"] if fo["cls"] == fam["class"] and fo["prop"] == fam["property"]}
        for fn_ in cs["functions"]:
            if not fn_.startswith(fam["prefix"]):
                continue
            nm_ = fn_[len(fam["prefix"]):]
            sim = rebound.Simulation()
            c.count(("fnprobe", fam["class"], fam["property"], nm_))
            try:
                setattr(holder(sim), fam["property"], nm_)
            except Exception:
                if nm_ in known:
                    c.violation("fnopt:%s.%s=%s" % (fam["class"], fam["property"], nm_), "%s.%s = %r raises although the setter names it" % (fam["class"], fam["property"], nm_), {"name": nm_})
                continue
            got = cbytes(sim, off, size)
            addr_ = ctypes.cast(getattr(clib, fn_), ctypes.c_void_p).value
            if got != addr_:
                others = [g for g in cs["functions"] if hasattr(clib, g) and ctypes.cast(getattr(clib, g), ctypes.c_void_p).value == got] if got else []
                c.violation("fnopt:%s.%s=%s" % (fam["class"], fam["property"], nm_),
                            "%s.%s = %r stores %#x (%s) at %s.%s; &%s = %#x" % (fam["class"], fam["property"], nm_, got, others or "no exported function", fam["struct"], fam["member"], fn_, addr_),
                            {"python": "sim = rebound.Simulation(); <%s of sim>.%s = %r" % (fam["class"], fam["property"], nm_), "stored": got, "stored_is": others, "symbol": fn_, "address": addr_})
            del sim

    # ---- order independence for function-pointer options: X, then Y; X, then a Python callable, then Y
    rule.append("function-pointer options: all ordered pairs X -> Y and X -> python callable -> Y on the same simulation")
    byfam = {}
    for fo in py["fnopts"]:
        byfam.setdefault((fo["cls"], fo["prop"]), []).append(fo["name"])
    fn_pairs = 0
    for (fcls, fprop), names in byfam.items():
        fams = [f for f in ref["fn_options"] if f["class"] == fcls and f["property"] == fprop]
        if not fams:
            continue
        fam = fams[0]
        holder, off, size, m = locate({"struct": fam["struct"], "member": fam["member"], "class": fam["class"]})
        addr = {}
        for nm in names:
            try:
                addr[nm] = ctypes.cast(getattr(clib, fam["prefix"] + nm), ctypes.c_void_p).value
            except AttributeError:
                pass
        for x in names:
            for y in names:
                for via_callable in (False, True):
                    if x not in addr or y not in addr:
                        continue
                    sim = rebound.Simulation()
                    obj = holder(sim)
                    fn_pairs += 1
                    c.count(("fnpair", fcls, fprop, x, y, via_callable), nontrivial=(x != y or via_callable))
                    try:
                        setattr(obj, fprop, x)
                        mid = None
                        if via_callable:
                            setattr(obj, fprop, lambda *a: 0)
                            mid = cbytes(sim, off, size)
                        setattr(obj, fprop, y)
                    except Exception as e:
                        c.violation("fnopt-sequence-raises:%s.%s" % (fcls, fprop), "%s.%s = %r%s then = %r raises %s" % (fcls, fprop, x, ", a callable," if via_callable else "", y, e),
                                    {"python": "o.%s = %r; o.%s = %r" % (fprop, x, fprop, y)})
                        continue
                    got = cbytes(sim, off, size)
                    if got != addr[y] or (via_callable and (mid in addr.values() or not mid)):
                        c.violation("fnopt-after-previous:%s.%s=%s" % (fcls, fprop, y),
                                    "%s.%s = %r%s, then = %r: C member %s.%s holds %#x, &%s%s = %#x%s" % (fcls, fprop, x, ", then a Python callable" if via_callable else "", y,
                                                                                                   fam["struct"], fam["member"], got, fam["prefix"], y, addr[y],
                                                                                                   "" if not via_callable else " (after the callable: %#x)" % (mid or 0)),
                                    {"python": "o.%s = %r; %so.%s = %r" % (fprop, x, "o.%s = (lambda *a: 0); " % fprop if via_callable else "", fprop, y), "stored": got, "expected": addr[y]})
                    del sim
    c.cov["fn_option_pair_cases"] = fn_pairs

    # ================================================================ shadowed properties (F6 pattern), on the real classes
    for cname, v in py["classes"].items():
        for fname in v.get("shadowed", []):
            c.count(("shadow", cname, fname))
            attr = classes[cname].__dict__.get(fname)
            if not isinstance(attr, property):
                c.violation(finding_key_for(c, "shadow", cls=cname, field=fname),
                            "%s.%s: the class body defines a property of that name but the attribute is the ctypes field descriptor (%s)" % (cname, fname, type(attr).__name__),
                            {"python": "type(rebound.%s.__dict__[%r])" % (cname, fname), "got": type(attr).__name__})

    # ================================================================ full signatures (callbacks, restypes, call sites)
    rule.append("callback fields: CFUNCTYPE return / argument kinds against the C member's prototype; every restype declaration and every clibrebound call "
                "site (AST) against the C prototypes; in a fresh interpreter Python API calls reaching double / struct / pointer returning functions are "
                "compared with calls through a second library handle whose restype/argtypes are built from the C prototype table")
    ccb = {(x["struct"], x["member"]): x for x in cs["callbacks"]}

    def kind_fits(ck, pk):
        """Python-side replica of kindOk for signatures (independent of the Lean code)"""
        if ck[0] == "int":
            return pk == ck
        if ck[0] == "enm":
            return pk[0] == "int" and pk[2] == ck[3]
        if ck[0] in ("f64", "f32", "chr", "void"):
            return pk == ck
        if ck[0] == "struct":
            return pk[0] == "struct" and cm.get(pk[1], {}).get("struct") == ck[1]
        if ck[0] == "ptr":
            return pk[0] == "ptr" and (pk[1] == ["void"] or kind_fits(ck[1], pk[1]))
        if ck[0] == "fptr":
            return pk[0] == "fptr" and kind_fits(ck[1], pk[1]) and ck[2] == pk[2]
        return False
    for pcb in py["callbacks"]:
        st = cm.get(pcb["cls"], {}).get("struct")
        fld = [f for f in py["classes"][pcb["cls"]]["members"] if f["name"] == pcb["field"]][0]
        over = [m["name"] for m in cs["structs"].get(st, {"members": []})["members"] if m["off"] == fld["off"]]
        c.count(("callback", pcb["cls"], pcb["field"]))
        cc = ccb.get((st, over[0])) if over else None
        if cc is None or not kind_fits(cc["ret"], pcb["ret"]) or len(cc["args"]) != len(pcb["args"]) or \
                not all(kind_fits(a, b) for a, b in zip(cc["args"], pcb["args"])):
            exec_bad.add((st, pcb["field"], "signature"))
            c.violation("callback-signature:%s.%s" % (pcb["cls"], pcb["field"]),
                        "%s.%s is CFUNCTYPE(%s; %s) but struct %s.%s is %s" % (pcb["cls"], pcb["field"], pcb["ret"], pcb["args"], st, over, cc),
                        {"class": pcb["cls"], "field": pcb["field"], "python": pcb, "c": cc})
    # model verdicts on declarations / calls
    bad_calls = [f for f in drv if f[0] == "CALL"]
    bad_decl = [f for f in drv if f[0] == "RESTYPE" and f[3] != "ok"]
    stray = [f for f in drv if f[0] == "FNATTR"]
    c.cov["ffi"] = {"prototypes": len(cs["protos"]), "restype_declarations": len([d_ for d_ in py["ffi_decls"] if d_["attr"] == "restype"]),
                    "call_sites": len(py["ffi_calls"]), "dynamic_getattr_sites": len(py["ffi_dynamic"]),
                    "calls_with_unknown_argument_kinds": sum(1 for cl in py["ffi_calls"] if any(a[0] == "opaque" for a in cl["args"])),
                    "unsound_calls": len(bad_calls), "bad_declarations": len(bad_decl), "stray_attributes": len(stray)}

    def call_key(fn, site):
        for e in c.findings:
            for x in e.get("lean_exceptions", []):
                if x["kind"] == "call" and (x["fn"], x["site"]) == (fn, site):
                    return e["key"]
        return "ffi-call:%s@%s" % (fn, site)
    lib2 = ctypes.CDLL(clib._name)     # second handle: its function objects do not share restype with the package's

    def ctype_of(k):
        if k[0] == "f64":
            return ctypes.c_double
        if k[0] == "int":
            return {(True, 4): ctypes.c_int32, (False, 4): ctypes.c_uint32, (True, 8): ctypes.c_int64, (False, 8): ctypes.c_uint64}.get((k[1], k[2]))
        if k[0] == "void":
            return None
        return "unsupported"
    for f in stray:
        fnm, site, attr = f[1], f[2], f[3]
        c.count(("fnattr", fnm, attr))
        fobj = getattr(clib, fnm)
        cret = cs["protos"].get(fnm, {}).get("ret")
        demo = {"python": "rebound.clibrebound.%s.restype" % fnm, "got": getattr(fobj.restype, "__name__", str(fobj.restype)),
                "stray_attribute": attr, "c_return": cret}
        rt = ctype_of(cret) if cret else "unsupported"
        if rt != "unsupported" and not cs["protos"][fnm]["args"]:
            g = getattr(lib2, fnm)
            g.restype = rt
            demo["value_with_c_return_type"] = g()
            demo["value_as_python_reads_it"] = fobj()
        if fobj.restype is ctypes.c_int and cret not in (["void"], ["int", True, 4]):
            c.violation(call_key(fnm, site), "%s: `clibrebound.%s.%s = …` is not a ctypes attribute; the function returns %s in C and is read as c_int" % (site, fnm, attr, cret), demo)
    for f in bad_decl:
        c.count(("restype", f[1], f[2]))
        dd = [d_ for d_ in py["ffi_decls"] if d_["fn"] == f[1] and "%s:%s" % (d_["module"], d_["scope"]) == f[2]]
        c.violation(call_key(f[1], f[2]), "%s sets clibrebound.%s.restype = %s but the C function returns %s" % (f[2], f[1], dd[0]["text"] if dd else "?", cs["protos"].get(f[1], {}).get("ret")),
                    {"site": f[2], "function": f[1], "declared": dd[0] if dd else None, "c": cs["protos"].get(f[1])})
    for f in bad_calls:
        fnm, site, why = f[1], f[2], f[4]
        if f[5] == "true" and any(x[1] == fnm for x in stray):
            continue              # same defect as the stray attribute above
        c.count(("call", fnm, site))
        pr = cs["protos"].get(fnm)
        demo = {"site": site, "function": fnm, "why": why, "c_prototype": pr,
                "call": [cl for cl in py["ffi_calls"] if cl["fn"] == fnm and "%s:%s" % (cl["module"], cl["scope"]) == site][:1]}
        if pr and why == "no-restype" and all(a == ["f64"] for a in pr["args"]) and ctype_of(pr["ret"]) not in (None, "unsupported"):
            vals = [0.3 + 0.8 * i for i in range(len(pr["args"]))]
            g = getattr(lib2, fnm)
            g.restype, g.argtypes = ctype_of(pr["ret"]), [ctypes.c_double] * len(vals)
            h = getattr(ctypes.CDLL(clib._name), fnm)
            h.argtypes = [ctypes.c_double] * len(vals)
            demo.update(args=vals, value_with_c_return_type=g(*vals), value_with_default_restype=h(*vals))
        c.violation(call_key(fnm, site), "%s calls clibrebound.%s: %s (C: %s)" % (site, fnm, why, pr), demo)
    # executed sample in a fresh interpreter: the Python API call comes first, then the same C function through a second
    # handle with restype/argtypes taken from the C prototype table
    sample_src = r"""
import sys, json, ctypes, struct, warnings
warnings.filterwarnings("ignore")
sys.path.insert(0, sys.argv[1])
import rebound
from ctypes import byref, c_double, c_int, c_uint32, c_char_p
lib2 = ctypes.CDLL(rebound.clibrebound._name)
def bits(x): return struct.pack("<d", x).hex()
res = []
def sim3():
    s = rebound.Simulation(); s.add(m=1.); s.add(m=1e-3, a=1., e=0.1, inc=0.2); s.add(m=2e-3, a=2.3, e=0.3, f=1.); return s
def dbl(fn, args, argtypes):
    g = getattr(lib2, fn); g.restype = c_double; g.argtypes = argtypes; return g(*args)
for name, fn in (("M_to_E", "reb_M_to_E"), ("E_to_f", "reb_E_to_f"), ("M_to_f", "reb_M_to_f")):
    a = getattr(rebound, name)(0.3, 1.1); b = dbl(fn, (0.3, 1.1), [c_double, c_double]); res.append((fn, bits(a), bits(b)))
a = rebound.mod2pi(7.5); b = dbl("reb_mod2pi", (7.5,), [c_double]); res.append(("reb_mod2pi", bits(a), bits(b)))
s = sim3(); a = s.energy(); b = dbl("reb_simulation_energy", (byref(s),), [ctypes.c_void_p]); res.append(("reb_simulation_energy", bits(a), bits(b)))
s = sim3(); L = s.angular_momentum()
g = lib2.reb_simulation_angular_momentum; g.restype = rebound.vectors.Vec3dBasic; g.argtypes = [ctypes.c_void_p]; v = g(byref(s))
res.append(("reb_simulation_angular_momentum", [bits(x) for x in L], [bits(v.x), bits(v.y), bits(v.z)]))
s = sim3(); p = s.com(); g = lib2.reb_simulation_com_range; g.restype = rebound.Particle; g.argtypes = [ctypes.c_void_p, c_int, c_int]; q = g(byref(s), 0, 3)
res.append(("reb_simulation_com_range", [bits(p.x), bits(p.m), bits(p.vy)], [bits(q.x), bits(q.m), bits(q.vy)]))
s = sim3(); o = s.particles[1].orbit(primary=s.particles[0])
g = lib2.reb_orbit_from_particle; g.restype = rebound.Orbit; g.argtypes = [c_double, rebound.Particle, rebound.Particle]; o2 = g(s.G, s.particles[1], s.particles[0])
res.append(("reb_orbit_from_particle_err", [bits(o.a), bits(o.e), bits(o.inc), bits(o.f)], [bits(o2.a), bits(o2.e), bits(o2.inc), bits(o2.f)]))
s = sim3(); a = s.particles[1] ** s.particles[2]
g = lib2.reb_particle_distance; g.restype = c_double; g.argtypes = [ctypes.c_void_p, ctypes.c_void_p]; b = g(byref(s.particles[1]), byref(s.particles[2]))
res.append(("reb_particle_distance", bits(a), bits(b)))
a = rebound.hash("c18-sample").value; g = lib2.reb_hash; g.restype = c_uint32; g.argtypes = [c_char_p]; b = g(b"c18-sample"); res.append(("reb_hash", a, b))
r = rebound.Rotation(angle=0.7, axis=[0.1, 0.2, 0.9]); ri = r.inverse()
g = lib2.reb_rotation_inverse; g.restype = rebound.Rotation; g.argtypes = [rebound.Rotation]; r2 = g(r)
res.append(("reb_rotation_inverse", [bits(ri.ix), bits(ri.iy), bits(ri.iz), bits(ri.r)], [bits(r2.ix), bits(r2.iy), bits(r2.iz), bits(r2.r)]))
s = sim3(); s.init_megno(seed=5); s.integrate(1.0); a = s.megno(); b = dbl("reb_simulation_megno", (byref(s),), [ctypes.c_void_p]); res.append(("reb_simulation_megno", bits(a), bits(b)))
print(json.dumps(res))
"""
    sf = os.path.join(work, "c18_sample.py")
    with open(sf, "w") as f:
        f.write(sample_src)
    env = dict(os.environ)
    env.pop("PYTHONPATH", None)
    sp = subprocess.run([sys.executable, sf, d], capture_output=True, text=True, env=env, timeout=300)
    if sp.returncode != 0:
        c.corr_break("the foreign-call sample does not run: " + sp.stderr[-600:])
    else:
        for fnm, a, b in json.loads(sp.stdout.strip().splitlines()[-1]):
            c.count(("ffi-sample", fnm))
            if a != b:
                c.violation("ffi-result:" + fnm, "the Python API reaches %s and reads %s; the C function returns %s" % (fnm, a, b),
                            {"function": fnm, "python_api": a, "explicit_signature": b, "script": "rv/c18.py sample_src"})

    # ================================================================ enumerations: every enumerator through the raw ctypes field
    rule.append("every ctypes field laid over a C enumeration: each enumerator value (negative ones included) written at the C offset and read through the field")
    for cname, cls in classes.items():
        if cname not in cm or cm[cname]["struct"] not in cs["structs"]:
            continue
        st = cm[cname]["struct"]
        for fld in py["classes"][cname]["members"]:
            ms = corresponding(cs, ref, st, fld["name"], fld["kind"])
            if not ms or ms[0]["kind"][0] != "enm" or fld["off"] != ms[0]["off"] or fld["kind"][0] != "int":
                continue
            buf = bytearray(max(ctypes.sizeof(cls), cs["structs"][st]["size"]))
            obj = cls.from_buffer(buf)
            for en, ev in cs["enums"][ms[0]["kind"][1]]:
                buf[fld["off"]:fld["off"] + fld["size"]] = (ev % (1 << (8 * ms[0]["size"]))).to_bytes(ms[0]["size"], "little")
                c.count(("enumfield", cname, fld["name"], en))
                got = getattr(obj, fld["name"])
                if got != ev:
                    c.violation("enum-field:%s.%s" % (cname, fld["name"]), "%s = %d stored in struct %s.%s reads through %s.%s as %r" % (en, ev, st, ms[0]["name"], cname, fld["name"], got),
                                {"enumerator": en, "value": ev, "read": got, "class": cname, "field": fld["name"]})
            del obj

    # ================================================================ binary field descriptors and binary warnings
    rule.append("binary_field_descriptor_list() against the raw C array (C-side layout); BINARY_WARNINGS against enum reb_simulation_binary_error_codes; two codes provoked on the real library")
    pdl, cdl = py.get("py_descriptors"), py.get("c_descriptors")
    if pdl is None or cdl is None:
        c.corr_break("descriptor lists could not be read: %s" % py.get("descriptor_error"))
    else:
        c.count(("descriptors",), n=len(cdl))
        if len(pdl) != len(cdl):
            c.violation("descriptor-list:length", "binary_field_descriptor_list() returns %d entries, the C array has %d (up to 'end')" % (len(pdl), len(cdl)),
                        {"python": "len(rebound.binary_field_descriptor.binary_field_descriptor_list())", "got": len(pdl), "c": len(cdl)})
        for i, (a, b) in enumerate(zip(pdl, cdl)):
            if a != b:
                c.violation("descriptor-list:%s" % b[2], "descriptor %d: Python sees %s, the C array holds %s" % (i, a, b), {"index": i, "python": a, "c": b})
                break
        dt = {v for _, v in cs["enums"].get("reb_binary_field_descriptor.dtype", [])}
        for b in cdl:
            if b[1] not in dt:
                c.violation("descriptor-dtype:%s" % b[2], "descriptor %s has dtype %d which is no enumerator" % (b[2], b[1]), {"descriptor": b})
    codes = dict(cs["enums"].get("reb_simulation_binary_error_codes", []))
    bw = py.get("binary_warnings") or []
    byval = {}
    for en, ev in codes.items():
        byval.setdefault(ev, []).append(en)
    for major, wid, msg in bw:
        c.count(("warning", wid))
        ens = byval.get(wid, [])
        kw = ref["opt"].get("warning_keywords", {}).get(ens[0] if ens else "", None)
        if len(ens) != 1 or (("_ERROR_" in ens[0]) != major) or kw is None or kw not in msg.lower():
            c.violation("binary-warning:%d" % wid, "BINARY_WARNINGS row (%s, %d, %r) vs C enumerators %s (expected phrase %r)" % (major, wid, msg[:60], ens, kw),
                        {"row": [major, wid, msg], "enumerators": ens})
    for en, ev in codes.items():
        if ev and not any(w[1] == ev for w in bw):
            c.violation("binary-warning-missing:%s" % en, "C code %s = %d has no row in BINARY_WARNINGS" % (en, ev), {"enumerator": en, "value": ev})
    # provoke two codes on the real library
    import warnings as _w
    for what, fn_, en in (("open a missing file", lambda: rebound.Simulationarchive(os.path.join(work, "does-not-exist.bin")), "REB_SIMULATION_BINARY_ERROR_NOFILE"),):
        c.count(("warning-live", en))
        kw = ref["opt"].get("warning_keywords", {}).get(en, "\0")
        try:
            with _w.catch_warnings():
                _w.simplefilter("ignore")
                fn_()
            c.violation("binary-warning-live:" + en, "%s does not raise" % what, {"action": what})
        except Exception as e:
            if kw not in str(e).lower():
                c.violation("binary-warning-live:" + en, "%s raises %r, expected the message of %s" % (what, str(e)[:100], en), {"action": what, "error": str(e)})

    # ================================================================ LIVE OBJECTS: the cross-cutting dimensions
    # (everything above the option sweeps ran on zeroed from_buffer instances; here the same oracle - Python attribute vs raw C
    #  bytes at the C-side offset - is crossed with live simulations, pointers, histories, special values, restore paths)
    import collections, math, pickle, copy as _copy
    dim = collections.Counter()
    rule.append("live objects: every scalar field of a live Simulation and its integrator sub-objects written A then B (0, -0.0, NaN, inf, negative, "
                "max, >=2^31) and read at the C offset; particles / var_config / ODE / archive reached through pointers; particle array across realloc; "
                "structures returned by value checked by meaning; units and hash properties; method arguments persisted in the struct; callbacks "
                "installed, replaced, cleared and actually invoked; sub-objects across reset_integrator; copy / pickle / archive restore")
    simcls = classes["Simulation"]
    SIMST = "reb_simulation"

    def rd(addr, size):
        return ctypes.string_at(addr, size)

    def enc(kind, v):
        if kind[0] == "f64":
            return struct.pack("<d", v)
        return (int(v) % (1 << (8 * kind[2]))).to_bytes(kind[2], "little")

    def values_for(kind):
        if kind[0] == "f64":
            return [1.5, -0.0, float("nan"), float("inf"), 0.0, -2.5e-300, 7.25]
        n_ = 8 * kind[2]
        if kind[1]:
            return [1, -1, 0, -(1 << (n_ - 1)), (1 << (n_ - 1)) - 1, 5]
        return [1, 0, (1 << n_) - 1, 1 << (n_ - 1), 5]

    def live_violation(st, pyf, what, rep):
        c.violation(finding_key_for(c, "name", struct=st, py=pyf) if any(
            x.get("struct") == st and x.get("py") == pyf for e in c.findings for x in e.get("lean_exceptions", [])) else "live-field:%s.%s" % (st, pyf), what, rep)

    def sweep_struct(getobj, cname, base_addr, tag):
        """getobj() -> the Python object (re-fetched every time); base_addr -> address of the C structure"""
        st = cm[cname]["struct"]
        for fld in py["classes"][cname]["members"]:
            k = fld["kind"]
            if k[0] not in ("int", "f64"):
                continue
            ms_ = corresponding(cs, ref, st, fld["name"], k)
            if not ms_:
                continue
            off_, size_ = ms_[0]["off"], ms_[0]["size"]
            saved = rd(base_addr + off_, size_)
            held = getobj()
            prev = None
            for i_, v in enumerate(values_for(k)):
                o_ = held if i_ % 2 else getobj()          # alternately a held reference and a freshly fetched one
                setattr(o_, fld["name"], v)
                got = rd(base_addr + off_, size_)
                dim["live_set_A_then_B_all_fields"] += 1
                if isinstance(v, float) and (v != v or v in (0.0, float("inf")) or math.copysign(1, v) < 0):
                    dim["special_values_nan_inf_zero_negzero"] += 1
                if k[0] == "int" and (v <= 0 or v >= (1 << 31)):
                    dim["special_values_zero_negative_ge_2^31"] += 1
                c.count(("live", tag, cname, fld["name"], i_))
                if got != enc(k, v) and size_ == fld["size"]:
                    live_violation(st, fld["name"], "live %s: %s.%s = %r (after %r): bytes of struct %s.%s are %s, expected %s" % (tag, cname, fld["name"], v, prev, st, ms_[0]["name"], got.hex(), enc(k, v).hex()),
                                   {"python": "%s.%s = %r" % (tag, fld["name"], v), "c_member": ms_[0]["name"], "c_offset": off_, "bytes": got.hex()})
                    break
                back = getattr(getobj(), fld["name"])
                if not (back == v or (v != v and back != back)):
                    live_violation(st, fld["name"], "live %s: %s.%s = %r reads back %r" % (tag, cname, fld["name"], v, back), {"python": "%s.%s" % (tag, fld["name"])})
                    break
                prev = v
            ctypes.memmove(base_addr + off_, saved, size_)

    def absoff(path):
        """C offset of a member path of struct reb_simulation"""
        st, tot = SIMST, 0
        for p_ in path:
            m_ = cmember(cs, st, p_)
            tot += m_["off"]
            if m_["kind"][0] == "struct":
                st = m_["kind"][1]
        return tot

    def mksim(n=3, integrator="whfast"):
        s_ = rebound.Simulation()
        s_.add(m=1.)
        for i_ in range(1, n):
            s_.add(m=1e-3 * i_, a=1. + 0.7 * i_, e=0.05 * i_, inc=0.02 * i_)
        s_.integrator = integrator
        s_.dt = 0.01
        return s_

    # ---- (1) every scalar field of a live simulation and of every integrator sub-object, A then B
    sim = mksim()
    sweep_struct(lambda: sim, "Simulation", ctypes.addressof(sim), "sim")
    for fld in py["classes"]["Simulation"]["members"]:
        if fld["kind"][0] == "struct" and fld["kind"][1] in cm:
            ms_ = corresponding(cs, ref, SIMST, fld["name"], fld["kind"])
            if ms_:
                sweep_struct((lambda n_=fld["name"]: getattr(sim, n_)), fld["kind"][1], ctypes.addressof(sim) + ms_[0]["off"], "sim." + fld["name"])
                dim["integrator_subobjects"] += 1
    del sim

    # ---- (2) objects reached through pointers
    sim = mksim(4)
    pm, pcs = cmember(cs, SIMST, "particles"), cs["structs"]["reb_particle"]
    pptr = lambda s_: int.from_bytes(rd(ctypes.addressof(s_) + pm["off"], 8), "little")
    for i_ in range(sim.N):
        sweep_struct((lambda j=i_: sim.particles[j]), "Particle", pptr(sim) + i_ * pcs["size"], "sim.particles[%d]" % i_)
        dim["pointer_particles"] += 1
    # particle array across allocation growth: a Particles container kept from before must still address the live array
    ps = sim.particles
    old_ptr = pptr(sim)
    na = cmember(cs, SIMST, "N_allocated")
    grown = 0
    for target in (130, 1030 if c.thorough else 260):
        while sim.N < target:
            sim.add(m=0., a=3. + 0.01 * sim.N)
        grown += int(pptr(sim) != old_ptr)
        for j in (0, 1, sim.N - 1):
            val = 1234.5 + j + target
            ps[j].x = val
            got = struct.unpack("<d", rd(pptr(sim) + j * pcs["size"] + cmember(cs, "reb_particle", "x")["off"], 8))[0]
            dim["array_realloc_container_kept"] += 1
            c.count(("realloc", target, j))
            if got != val:
                c.violation("stale-particles-container", "`ps = sim.particles` kept across add() up to N=%d: ps[%d].x = %r is not in the live C array (C has %r)" % (target, j, val, got),
                            {"python": "ps = sim.particles; add particles until N=%d; ps[%d].x = %r" % (target, j, val), "c_value": got})
        nalloc = int.from_bytes(rd(ctypes.addressof(sim) + na["off"], na["size"]), "little")
        if sim.N_allocated != nalloc or nalloc < sim.N or sim.N != int.from_bytes(rd(ctypes.addressof(sim) + cmember(cs, SIMST, "N")["off"], 4), "little"):
            c.violation("live-field:reb_simulation.N_allocated", "after growth Python N/N_allocated = %d/%d, C bytes say N_allocated=%d" % (sim.N, sim.N_allocated, nalloc), {})
    c.cov["particle_array_moved"] = grown
    del ps, sim
    # variational configurations
    sim = mksim(3)
    v1 = sim.add_variation()
    v1b = sim.add_variation(testparticle=2)
    v2 = sim.add_variation(order=2, first_order=v1)
    vm, vcs = cmember(cs, SIMST, "var_config"), cs["structs"]["reb_variational_configuration"]
    vptr = int.from_bytes(rd(ctypes.addressof(sim) + vm["off"], 8), "little")
    nvc = int.from_bytes(rd(ctypes.addressof(sim) + cmember(cs, SIMST, "N_var_config")["off"], 4), "little")
    if nvc != 3 or sim.N_var_config != 3:
        c.violation("live-field:reb_simulation.N_var_config", "three variations added: Python N_var_config=%r, C bytes %d" % (sim.N_var_config, nvc), {})
    for i_, vv in enumerate((v1, v1b, v2)):
        for mname in ("order", "index", "testparticle", "index_1st_order_a"):
            m_ = cmember(cs, "reb_variational_configuration", mname)
            raw_ = int.from_bytes(rd(vptr + i_ * vcs["size"] + m_["off"], m_["size"]), "little", signed=True)
            dim["pointer_var_config"] += 1
            c.count(("varcfg", i_, mname))
            if getattr(sim.var_config[i_], mname) != raw_ or getattr(vv, mname) != raw_:
                c.violation("live-field:reb_variational_configuration." + mname, "var_config[%d].%s: Python %r / returned Variation %r, C bytes %d" % (i_, mname, getattr(sim.var_config[i_], mname), getattr(vv, mname), raw_), {})
    if (v1.order, v2.order, v1b.testparticle) != (1, 2, 2):
        c.violation("live-field:reb_variational_configuration.order", "add_variation arguments are not what the C entries hold: %r" % ((v1.order, v2.order, v1b.testparticle),), {})
    sweep_struct(lambda: sim.var_config[1], "Variation", vptr + vcs["size"], "sim.var_config[1]")
    del sim
    # ODE
    sim = mksim(2, "bs")
    ode = sim.create_ode(length=4, needs_nbody=False)
    oa = ctypes.addressof(ode)
    optr = int.from_bytes(rd(int.from_bytes(rd(ctypes.addressof(sim) + cmember(cs, SIMST, "odes")["off"], 8), "little"), 8), "little")
    dim["pointer_ode"] += 1
    if optr != oa or int.from_bytes(rd(ctypes.addressof(sim) + cmember(cs, SIMST, "N_odes")["off"], 4), "little") != 1:
        c.violation("live-field:reb_simulation.odes", "create_ode(): sim.odes[0] = %#x, returned object at %#x" % (optr, oa), {})
    if int.from_bytes(rd(oa + cmember(cs, "reb_ode", "length")["off"], 4), "little") != 4 or ode.length != 4 or ode.needs_nbody != 0:
        c.violation("live-field:reb_ode.length", "create_ode(length=4): C bytes / Python disagree", {})
    yptr = int.from_bytes(rd(oa + cmember(cs, "reb_ode", "y")["off"], 8), "little")
    for j in range(4):
        ode.y[j] = 10.5 + j
        dim["pointer_ode"] += 1
        c.count(("ode-y", j))
        if struct.unpack("<d", rd(yptr + 8 * j, 8))[0] != 10.5 + j:
            c.violation("live-field:reb_ode.y", "ode.y[%d] written through Python is not at the C pointer" % j, {})
    sweep_struct(lambda: ode, "ODE", oa, "ode")
    del ode, sim

    # ---- (3) structures returned by value, checked by meaning (names <-> quantities)
    sim = rebound.Simulation()
    sim.add(m=1.)
    el = dict(a=2.5, e=0.3, inc=0.4, Omega=0.5, omega=0.6, f=0.7)
    sim.add(m=1e-3, **el)
    o = sim.particles[1].orbit(primary=sim.particles[0])
    for k_, v in el.items():
        dim["by_value_struct_returns"] += 1
        c.count(("orbit", k_))
        if not abs(getattr(o, k_) - v) < 1e-9:
            c.violation("by-value:Orbit." + k_, "particle added with %s=%r, orbit().%s = %r" % (k_, v, k_, getattr(o, k_)), {"elements": el})
    mu = sim.G * (1 + 1e-3)
    for k_, want in (("P", 2 * math.pi * math.sqrt(2.5 ** 3 / mu)), ("n", math.sqrt(mu / 2.5 ** 3)), ("pomega", 1.1), ("d", 2.5 * (1 - 0.09) / (1 + 0.3 * math.cos(0.7)))):
        dim["by_value_struct_returns"] += 1
        if not abs(getattr(o, k_) - want) < 1e-9 * max(1, abs(want)):
            c.violation("by-value:Orbit." + k_, "orbit().%s = %r, expected %r" % (k_, getattr(o, k_), want), {})
    sim.add(m=2e-3, a=4., inc=1.0, Omega=2.0)
    Lx = math.fsum(p.m * (p.y * p.vz - p.z * p.vy) for p in sim.particles)
    Ly = math.fsum(p.m * (p.z * p.vx - p.x * p.vz) for p in sim.particles)
    Lz = math.fsum(p.m * (p.x * p.vy - p.y * p.vx) for p in sim.particles)
    Lv = sim.angular_momentum()
    for got, want, nm_ in zip(Lv, (Lx, Ly, Lz), "xyz"):
        dim["by_value_struct_returns"] += 1
        if not abs(got - want) < 1e-12:
            c.violation("by-value:Vec3d." + nm_, "angular_momentum()[%s] = %r, expected %r" % (nm_, got, want), {})
    com = sim.com()
    M = math.fsum(p.m for p in sim.particles)
    for attr in ("x", "y", "z", "vx", "vy", "vz"):
        dim["by_value_struct_returns"] += 1
        want = math.fsum(p.m * getattr(p, attr) for p in sim.particles) / M
        if not abs(getattr(com, attr) - want) < 1e-12 or abs(com.m - M) > 1e-15:
            c.violation("by-value:Particle." + attr, "com().%s = %r, expected %r" % (attr, getattr(com, attr), want), {})
    ax, ang = (0.1, -0.2, 0.97), 0.7
    nrm = math.sqrt(sum(t * t for t in ax))
    r_ = rebound.Rotation(angle=ang, axis=list(ax))
    for attr, want in (("ix", ax[0] / nrm * math.sin(ang / 2)), ("iy", ax[1] / nrm * math.sin(ang / 2)), ("iz", ax[2] / nrm * math.sin(ang / 2)), ("r", math.cos(ang / 2))):
        dim["by_value_struct_returns"] += 1
        if not abs(getattr(r_, attr) - want) < 1e-12:
            c.violation("by-value:Rotation." + attr, "Rotation(angle, axis).%s = %r, expected %r" % (attr, getattr(r_, attr), want), {})
    ri = r_.inverse()
    if not all(abs(getattr(ri, a_) + getattr(r_, a_)) < 1e-12 for a_ in ("ix", "iy", "iz")) or abs(ri.r - r_.r) > 1e-12:
        c.violation("by-value:Rotation.inverse", "inverse() is not the conjugate quaternion", {})
    del sim

    # ---- (4) properties that are not named options: units <-> python_unit_*, Particle.hash
    clib.reb_hash.restype = ctypes.c_uint32
    for seq in ((("AU", "yr", "Msun"), ("m", "s", "kg")), (("m", "s", "kg"), ("AU", "yr2pi", "Mjupiter"))):
        sim = rebound.Simulation()
        for un in seq:                   # set A then B on the same simulation
            sim.units = un
            want = {"python_unit_l": un[0], "python_unit_t": un[1], "python_unit_m": un[2]}
            got_u = sim.units
            dim["property_units"] += 1
            c.count(("units", un))
            if (got_u["length"].lower(), got_u["time"].lower(), got_u["mass"].lower()) != tuple(u.lower() for u in un):
                c.violation("property:units-readback", "sim.units = %r reads back %r" % (un, got_u), {"python": "sim.units = %r; sim.units" % (un,)})
            for mname, u in want.items():
                m_ = cmember(cs, SIMST, mname)
                raw_ = int.from_bytes(rd(ctypes.addressof(sim) + m_["off"], 4), "little")
                h = clib.reb_hash(ctypes.c_char_p(u.lower().encode()))
                if raw_ != h:
                    landed = [x for x in want if int.from_bytes(rd(ctypes.addressof(sim) + cmember(cs, SIMST, x)["off"], 4), "little") == h]
                    c.violation(finding_key_for(c, "name", struct=SIMST, py=mname), "sim.units = %r: struct reb_simulation.%s holds %#x, hash(%r) = %#x (that hash is in %s)" % (un, mname, raw_, u, h, landed),
                                {"python": "sim.units = %r" % (un,), "c_member": mname, "bytes": raw_, "expected_hash": h, "hash_found_in": landed})
        del sim
    sim = mksim(3)
    hm = cmember(cs, "reb_particle", "hash")
    for v, want in (("planet-b", clib.reb_hash(b"planet-b")), (12345, 12345), (0, 0), ("second", clib.reb_hash(b"second")), (4000000000, 4000000000)):
        sim.particles[1].hash = v
        raw_ = int.from_bytes(rd(pptr(sim) + pcs["size"] + hm["off"], 4), "little")
        dim["property_particle_hash"] += 1
        c.count(("hash", str(v)))
        if raw_ != want or sim.particles[1].hash.value != want:
            c.violation("property:Particle.hash", "particles[1].hash = %r: C bytes %d, reads back %r, expected %d" % (v, raw_, sim.particles[1].hash.value, want), {"python": "sim.particles[1].hash = %r" % (v,)})
    sim.particles[2].xyz = (1.25, -2.5, 3.75)
    sim.particles[2].vxyz = (-0.5, 0.25, 0.125)
    for attr, want in zip(("x", "y", "z", "vx", "vy", "vz"), (1.25, -2.5, 3.75, -0.5, 0.25, 0.125)):
        dim["property_particle_xyz"] += 1
        if struct.unpack("<d", rd(pptr(sim) + 2 * pcs["size"] + cmember(cs, "reb_particle", attr)["off"], 8))[0] != want:
            c.violation("property:Particle.xyz", "particles[2].xyz/vxyz: C member %s is not %r" % (attr, want), {})
    del sim

    # ---- (5) method arguments / defaults persisted in the struct
    def cint(s_, path, signed=True):
        m_ = path[-1]
        st, off_ = SIMST, 0
        return None
    for efv, want in ((None, 1), (0, 0), (1, 1), (None, 1), (0, 0)):
        sim = mksim(2)
        sim.exact_finish_time = 1 - want            # the previous content must not survive
        if efv is None:
            sim.integrate(0.05)
        else:
            sim.integrate(0.05, exact_finish_time=efv)
        raw_ = int.from_bytes(rd(ctypes.addressof(sim) + cmember(cs, SIMST, "exact_finish_time")["off"], 4), "little", signed=True)
        dim["defaults_persisted_in_struct"] += 1
        c.count(("eft", str(efv)))
        if raw_ != want or sim.exact_finish_time != want or (want == 1 and sim.t != 0.05) or (want == 0 and not sim.t >= 0.05):
            c.violation("persisted-argument:exact_finish_time", "integrate(0.05%s) with the field previously %d: C exact_finish_time = %d (expected %d), t = %r" % ("" if efv is None else ", exact_finish_time=%d" % efv, 1 - want, raw_, want, sim.t),
                        {"python": "sim.exact_finish_time = %d; sim.integrate(0.05%s)" % (1 - want, "" if efv is None else ", exact_finish_time=%d" % efv), "c_value": raw_})
        del sim
    sim = rebound.Simulation()
    sim.configure_box(6.5, 2, 3, 4)
    for mname, want in (("N_root_x", 2), ("N_root_y", 3), ("N_root_z", 4), ("N_root", 24)):
        dim["defaults_persisted_in_struct"] += 1
        raw_ = int.from_bytes(rd(ctypes.addressof(sim) + cmember(cs, SIMST, mname)["off"], 4), "little", signed=True)
        if raw_ != want or getattr(sim, mname) != want:
            c.violation("persisted-argument:configure_box." + mname, "configure_box(6.5, 2, 3, 4): C %s = %d, Python %r" % (mname, raw_, getattr(sim, mname)), {})
    rs = struct.unpack("<d", rd(ctypes.addressof(sim) + cmember(cs, SIMST, "root_size")["off"], 8))[0]
    bx = struct.unpack("<ddd", rd(ctypes.addressof(sim) + cmember(cs, SIMST, "boxsize")["off"], 24))
    if rs != 6.5 or bx != (13.0, 19.5, 26.0) or (sim.boxsize.x, sim.boxsize.y, sim.boxsize.z) != bx:
        c.violation("persisted-argument:configure_box.boxsize", "configure_box(6.5, 2, 3, 4): root_size %r boxsize %r" % (rs, bx), {})
    del sim
    afn = os.path.join(work, "c18_auto.bin")
    for kwarg, mname, val, fmt in (("interval", "simulationarchive_auto_interval", 2.5, "<d"), ("walltime", "simulationarchive_auto_walltime", 3.5, "<d"), ("step", "simulationarchive_auto_step", 7, "<Q")):
        sim = mksim(2)
        sim.save_to_file(afn, delete_file=True, **{kwarg: val})
        m_ = cmember(cs, SIMST, mname)
        raw_ = struct.unpack(fmt, rd(ctypes.addressof(sim) + m_["off"], 8))[0]
        dim["defaults_persisted_in_struct"] += 1
        c.count(("autosave", kwarg))
        if raw_ != val or getattr(sim, mname) != val:
            c.violation("persisted-argument:save_to_file." + kwarg, "save_to_file(%s=%r): C %s = %r, Python %r" % (kwarg, val, mname, raw_, getattr(sim, mname)), {})
        del sim

    # ---- (6) callbacks: installed, replaced, cleared with 0, and actually invoked by C
    cbprops = [p_ for p_ in ("additional_forces", "pre_timestep_modifications", "post_timestep_modifications", "heartbeat",
                             "coefficient_of_restitution", "collision_resolve", "free_particle_ap") if isinstance(getattr(simcls, p_, None), property)]
    for p_ in cbprops:
        sim = mksim(2)
        m_ = cmember(cs, SIMST, p_)
        ptr = lambda: int.from_bytes(rd(ctypes.addressof(sim) + m_["off"], 8), "little")
        before = ptr()
        f1, f2 = (lambda *a: 0), (lambda *a: 0)
        setattr(sim, p_, f1)
        a1 = ptr()
        setattr(sim, p_, f2)
        a2 = ptr()
        dim["callbacks_install_replace_clear"] += 1
        c.count(("cb", p_))
        field_v = ctypes.cast(getattr(sim, "_" + p_), ctypes.c_void_p).value
        if not a1 or not a2 or a1 == a2 or a2 != field_v:
            c.violation("callback:" + p_, "sim.%s = f1 then f2: C member holds %#x then %#x, the ctypes field says %#x" % (p_, a1, a2, field_v or 0), {"python": "sim.%s = f1; sim.%s = f2" % (p_, p_)})
        try:
            setattr(sim, p_, 0)
            if ptr() != 0:
                c.violation("callback-clear:" + p_, "sim.%s = 0 leaves %#x in the C member" % (p_, ptr()), {"python": "sim.%s = f; sim.%s = 0" % (p_, p_)})
            dim["callbacks_install_replace_clear"] += 1
        except Exception as e:
            c.cov.setdefault("callback_clear_not_supported", {})[p_] = "%s" % type(e).__name__
        del sim
    sim = mksim(3)
    sim.integrator = "leapfrog"
    calls = collections.Counter()
    sim.additional_forces = lambda s_: calls.update(["additional_forces"])
    sim.pre_timestep_modifications = lambda s_: calls.update(["pre_timestep_modifications"])
    sim.post_timestep_modifications = lambda s_: calls.update(["post_timestep_modifications"])
    sim.heartbeat = lambda s_: calls.update(["heartbeat"])
    sim.integrate(sim.t + 3.5 * sim.dt, exact_finish_time=0)
    for p_ in ("additional_forces", "pre_timestep_modifications", "post_timestep_modifications", "heartbeat"):
        dim["callbacks_invoked_by_C"] += 1
        c.count(("cb-invoked", p_))
        if calls[p_] < 3:
            c.violation("callback-invoked:" + p_, "sim.%s installed from Python was called %d times in 3 steps" % (p_, calls[p_]), {"python": "sim.%s = f; sim.steps(3)" % p_, "calls": dict(calls)})
    sim.heartbeat = 0
    n0 = calls["heartbeat"]
    sim.integrate(sim.t + 2.5 * sim.dt, exact_finish_time=0)
    if calls["heartbeat"] != n0:
        c.violation("callback-clear:heartbeat", "heartbeat cleared with 0 is still called", {})
    del sim
    sim = mksim(3)
    sim.integrator = "mercurius"
    lcalls = []
    sim.ri_mercurius.L = lambda s_, d_, dc_: (lcalls.append(1), 1.0)[1]
    sim.steps(2)
    dim["callbacks_invoked_by_C"] += 1
    if not lcalls:
        c.violation("callback-invoked:ri_mercurius.L", "a Python switching function installed in ri_mercurius.L is never called", {})
    del sim

    # ---- (7) integrator sub-objects held across reset_integrator / integrator switches
    sim = mksim(3, "whfast")
    w, ia = sim.ri_whfast, sim.ri_ias15
    w.corrector = 11
    w.kernel = "lazy"
    sim.steps(2)
    sim.reset_integrator()
    for obj_, cname_, path_, attr, newv in ((w, "IntegratorWHFast", ["ri_whfast"], "safe_mode", 0), (w, "IntegratorWHFast", ["ri_whfast"], "corrector", 5),
                                            (ia, "IntegratorIAS15", ["ri_ias15"], "epsilon", 1.25e-7), (ia, "IntegratorIAS15", ["ri_ias15"], "adaptive_mode", 1)):
        m_ = cmember(cs, cm[cname_]["struct"], attr)
        addr = ctypes.addressof(sim) + absoff(path_) + m_["off"]
        k = m_["kind"]
        cur = rd(addr, m_["size"])
        dim["subobject_across_reset_integrator"] += 1
        c.count(("reset", cname_, attr))
        if enc(k, getattr(obj_, attr)) != cur:
            c.violation("subobject-after-reset:%s.%s" % (cname_, attr), "held %s.%s reads %r after reset_integrator(), C bytes %s" % (path_[0], attr, getattr(obj_, attr), cur.hex()), {})
        setattr(obj_, attr, newv)
        if rd(addr, m_["size"]) != enc(k, newv):
            c.violation("subobject-after-reset:%s.%s" % (cname_, attr), "writing held %s.%s after reset_integrator() does not reach the C member" % (path_[0], attr), {})
    w.kernel = "lazy"
    sim.integrator = "ias15"
    sim.steps(1)
    sim.integrator = "whfast"
    sim.steps(1)
    if w.kernel != "lazy" or int.from_bytes(rd(ctypes.addressof(sim) + absoff(["ri_whfast", "kernel"]), 4), "little") != 3:
        c.violation("subobject-after-reset:IntegratorWHFast.kernel", "kernel 'lazy' set before integrator switches reads %r" % (w.kernel,), {})
    del w, ia, sim

    # ---- (8) copy / deepcopy / pickle / archive restore: the new Python object mirrors its own C bytes, names survive
    src = rebound.Simulation()
    src.units = ("AU", "yr", "Msun")
    src.add(m=1.)
    src.add(m=1e-3, a=1.7, e=0.05, inc=0.02)
    src.add(m=2e-3, a=2.4, e=0.1, inc=0.04)
    src.integrator, src.dt = "ias15", 0.01
    src.ri_whfast.kernel, src.ri_whfast.coordinates, src.ri_whfast.corrector = "lazy", "whds", 7
    src.ri_saba.type, src.ri_eos.phi0, src.ri_eos.phi1 = "cl4", "lf8", "pmlf4"
    src.gravity, src.collision, src.boundary = "compensated", "direct", "open"
    src.configure_box(50.)
    src.N_active, src.softening, src.exit_max_distance, src.rand_seed = 2, 0.125, 77.5, 4000000002
    src.particles[1].hash = "b"
    src.steps(2)
    names = lambda s_: (s_.integrator, s_.gravity, s_.collision, s_.boundary, s_.ri_whfast.kernel, s_.ri_whfast.coordinates, s_.ri_whfast.corrector,
                        s_.ri_saba.type, s_.ri_eos.phi0, s_.ri_eos.phi1, tuple(sorted(s_.units.items())), s_.N_active, s_.softening, s_.exit_max_distance,
                        s_.rand_seed, s_.particles[1].hash.value, s_.t, s_.N)
    rfile = os.path.join(work, "c18_restore.bin")
    src.save_to_file(rfile, delete_file=True)
    t_saved = [src.t]
    src.steps(3)
    src.save_to_file(rfile)
    t_saved.append(src.t)
    src.steps(1)
    src.save_to_file(rfile)
    t_saved.append(src.t)
    restored = {"copy()": src.copy(), "copy.deepcopy": _copy.deepcopy(src), "pickle": pickle.loads(pickle.dumps(src)),
                "Simulation(file)": rebound.Simulation(rfile), "Simulationarchive[-1]": rebound.Simulationarchive(rfile)[-1]}
    for how, s2 in restored.items():
        dim["restore_copy_pickle_archive"] += 1
        c.count(("restore", how))
        if names(s2) != names(src):
            bad_ = [(a_, b_) for a_, b_ in zip(names(src), names(s2)) if a_ != b_]
            c.violation("restore-names:" + how, "%s: named options / values differ from the source: %s" % (how, bad_[:4]), {"how": how, "source": names(src), "restored": names(s2)})
        sweep_struct(lambda s2=s2: s2, "Simulation", ctypes.addressof(s2), how)
        sweep_struct(lambda s2=s2: s2.ri_whfast, "IntegratorWHFast", ctypes.addressof(s2) + absoff(["ri_whfast"]), how + ".ri_whfast")
        sweep_struct(lambda s2=s2: s2.particles[2], "Particle", pptr(s2) + 2 * pcs["size"], how + ".particles[2]")
    # the archive structure itself, after opening a real file
    sa = rebound.Simulationarchive(rfile)
    saa = ctypes.addressof(sa)
    sm = lambda n_: cmember(cs, "reb_simulationarchive", n_)
    nb = int.from_bytes(rd(saa + sm("nblobs")["off"], 8), "little", signed=True)
    tptr = int.from_bytes(rd(saa + sm("t")["off"], 8), "little")
    ts = [struct.unpack("<d", rd(tptr + 8 * i_, 8))[0] for i_ in range(max(nb, 0))]
    dim["pointer_simulationarchive"] += 1 + len(ts)
    c.count(("archive",), n=1 + len(ts))
    if nb != 3 or sa.nblobs != 3 or len(sa) != 3 or ts != t_saved or [sa.t[i_] for i_ in range(3)] != t_saved:
        c.violation("live-field:reb_simulationarchive.nblobs", "archive with snapshots at %r: C nblobs=%d t=%r, Python nblobs=%r" % (t_saved, nb, ts, sa.nblobs), {})
    for mname in ("version", "auto_interval", "auto_walltime", "auto_step"):
        m_ = sm(mname)
        raw_ = scalar_from_bytes(m_["kind"], rd(saa + m_["off"], m_["size"]))
        dim["pointer_simulationarchive"] += 1
        if getattr(sa, mname) != raw_:
            c.violation("live-field:reb_simulationarchive." + mname, "Simulationarchive.%s = %r, C bytes %r" % (mname, getattr(sa, mname), raw_), {})
    if [sa[i_].t for i_ in range(3)] != t_saved:
        c.violation("live-field:reb_simulationarchive.t", "snapshots restore to times %r, saved at %r" % ([sa[i_].t for i_ in range(3)], t_saved), {})
    del sa, restored, src

    # ================================================================ method histories: arguments persisted in the struct, call A then call B
    # factors: method (save_to_file / integrate / configure_box) x previous call's argument set x new call's argument set x delete_file;
    # oracle: after (A, B) the members the method writes equal their values after B alone on a fresh simulation (where the method promises
    # a reset), the requested member always holds the requested value, and no call leaves a stray attribute in the instance __dict__
    rule.append("method histories: every ordered pair of argument sets of save_to_file (plain / interval x2 / walltime / step x2; delete_file) , integrate(exact_finish_time) and "
                "configure_box on one simulation vs the second call alone on a fresh one; after every call the instance __dict__ holds only committed Python-only attributes")
    pyonly = ref["opt"].get("python_only_attributes", {})

    def store_key(cls_, attr):
        for e in c.findings:
            for x in e.get("lean_exceptions", []):
                if x["kind"] == "store" and (x["class"], x["attr"]) == (cls_, attr):
                    return e["key"]
        return "stray-attribute:%s.%s" % (cls_, attr)

    def stray(obj_, how):
        cn = type(obj_).__name__
        try:
            keys = list(vars(obj_))
        except TypeError:
            return
        dim["stray_attribute_checks"] += 1
        flds = {f["name"] for f in py["classes"].get(cn, {"members": []})["members"]}
        for k_ in keys:
            if k_ in pyonly.get(cn, []) or k_.startswith("_b_") or k_ == "_objects":
                continue
            near = sorted(flds, key=lambda f_: abs(len(f_) - len(k_)) + sum(a != b for a, b in zip(f_, k_)))[:1]
            c.violation(store_key(cn, k_), "%s: a %s instance carries the Python-only attribute %r = %r in its __dict__ — ctypes accepted an unknown field name; nearest C-mirroring field: %s"
                        % (how, cn, k_, vars(obj_)[k_], near), {"python": how, "stray_attribute": k_, "nearest_field": near})
    SA = ("simulationarchive_auto_interval", "simulationarchive_auto_walltime", "simulationarchive_auto_step", "simulationarchive_next", "simulationarchive_next_step")

    def sa_state(s_):
        out_ = {}
        for mname in SA:
            m_ = cmember(cs, SIMST, mname)
            out_[mname] = scalar_from_bytes(m_["kind"], rd(ctypes.addressof(s_) + m_["off"], m_["size"]))
        return out_
    argsets = [("plain", {}), ("interval=2.5", {"interval": 2.5}), ("interval=3.5", {"interval": 3.5}), ("walltime=3.5", {"walltime": 3.5}), ("step=7", {"step": 7}), ("step=9", {"step": 9})]
    want_member = {"interval": "simulationarchive_auto_interval", "walltime": "simulationarchive_auto_walltime", "step": "simulationarchive_auto_step"}
    hfile = os.path.join(work, "c18_hist.bin")
    for an, akw in argsets:
        for bn, bkw in argsets:
            for delete in (True, False):
                sim = mksim(2)
                sim.save_to_file(hfile, delete_file=True, **akw)
                sim.save_to_file(hfile, delete_file=delete, **bkw)
                got = sa_state(sim)
                dim["method_history_save_to_file"] += 1
                c.count(("hist-save", an, bn, delete), nontrivial=(an != bn))
                how = "sim.save_to_file(f, delete_file=True%s); sim.save_to_file(f, delete_file=%s%s)" % ("".join(", %s=%r" % kv for kv in akw.items()), delete, "".join(", %s=%r" % kv for kv in bkw.items()))
                stray(sim, how)
                for k_, v_ in bkw.items():
                    if got[want_member[k_]] != v_:
                        c.violation("persisted-argument:save_to_file." + k_, "%s: C %s = %r" % (how, want_member[k_], got[want_member[k_]]), {"python": how, "c_state": got})
                if delete and bkw:
                    ref_ = mksim(2)
                    ref_.save_to_file(hfile + ".ref", delete_file=True, **bkw)
                    want = sa_state(ref_)
                    if got != want:
                        diff = {k_: (got[k_], want[k_]) for k_ in got if got[k_] != want[k_]}
                        c.violation("persisted-argument:save_to_file-history", "%s: C members %s differ from a fresh simulation making only the second call (after history, fresh)" % (how, diff),
                                    {"python": how, "after_history": got, "fresh": want})
                    del ref_
                del sim
    for (na_, nx, ny, nz), (nb_, mx, my, mz) in (((6.5, 2, 3, 4), (3.25, 1, 1, 1)), ((3.25, 1, 1, 1), (6.5, 2, 3, 4)), ((6.5, 2, 3, 4), (6.5, 4, 3, 2))):
        sim = rebound.Simulation()
        sim.configure_box(na_, nx, ny, nz)
        sim.configure_box(nb_, mx, my, mz)
        ref_ = rebound.Simulation()
        ref_.configure_box(nb_, mx, my, mz)
        dim["method_history_configure_box"] += 1
        c.count(("hist-box", na_, nb_, mx))
        stray(sim, "configure_box twice")
        for mname in ("root_size", "N_root_x", "N_root_y", "N_root_z", "N_root", "boxsize", "boxsize_max"):
            m_ = cmember(cs, SIMST, mname)
            if rd(ctypes.addressof(sim) + m_["off"], m_["size"]) != rd(ctypes.addressof(ref_) + m_["off"], m_["size"]):
                c.violation("persisted-argument:configure_box-history", "configure_box%r then configure_box%r: C member %s differs from the second call alone" % ((na_, nx, ny, nz), (nb_, mx, my, mz), mname), {})
        del sim, ref_
    # stray attributes after the other Python-layer operations that write fields
    sim = mksim(3)
    sim.integrate(0.03)
    sim.init_megno(seed=3)
    sim.add_variation()
    sim.move_to_com()
    stray(sim, "integrate / init_megno / add_variation / move_to_com")
    for how_, o_ in (("copy()", sim.copy()), ("pickle round trip of a Simulation", pickle.loads(pickle.dumps(sim))),
                     ("pickle round trip of a Particle", pickle.loads(pickle.dumps(sim.particles[1]))), ("copy.copy of a Particle", _copy.copy(sim.particles[1])),
                     ("sim.particles[1]", sim.particles[1]), ("particles[1].orbit()", sim.particles[1].orbit(primary=sim.particles[0])), ("Rotation", rebound.Rotation(angle=0.3, axis=[0, 0, 1]))):
        stray(o_, how_)
    pp_ = pickle.loads(pickle.dumps(sim.particles[1]))
    smem = cmember(cs, "reb_particle", "sim")
    raw_ = int.from_bytes(rd(ctypes.addressof(pp_) + smem["off"], 8), "little")
    dim["pickle_particle_pointers_cleared"] += 1
    if raw_ != 0:
        c.violation("unpickled-particle-sim-pointer-not-null", "an unpickled Particle still carries the simulation pointer %#x of the process that pickled it in struct reb_particle.sim (c and ap are cleared)" % raw_,
                    {"python": "p = pickle.loads(pickle.dumps(sim.particles[1])); bool(p._sim)", "c_bytes": raw_, "instance_dict": {k_: str(v_) for k_, v_ in vars(pp_).items()}})
    del sim

    # ================================================================ PAIRWISE CONJUNCTIONS of the option mechanism's factors
    # factors: V = (family, name) | S = spelling (name / NAME / int) | P = previous state (fresh / next name / previous name / composite
    # shortcut) | R = path to the object that is read (direct / copy / deepcopy / pickle / file restore / archive[-1]) | G = read-out
    # (getter / text: repr or status()) | I = interleaved event (none / another family set afterwards / sentinel neighbours around the
    # C member) | H = holder (sub-object re-fetched / held reference).  Cases come from a greedy all-pairs covering array; constraints
    # are listed in `pair_excluded`.  The setter model (drv_c18 SEQ) runs the same histories: tie.
    import random as _random, io as _io, contextlib as _ctx
    rule.append("pairwise covering array over (family,name) x spelling x previous state x restore path x read-out x interleaved event x holder; "
                "thorough adds the full (family,name) x spelling x path factorial; every direct history is also run through the Lean setter model")
    shown = ref["opt"].get("shown_in", {})
    composite_for = {("Simulation", "integrator"): "whckl", ("IntegratorWHFast", "kernel"): "whckm", ("IntegratorSABA", "type"): "sabacl4"}
    famlist = [f for f in ref["options"] if locate(f)[3]["kind"][0] == "enm"]
    Vvals = []
    finfo = {}
    for fi, fam in enumerate(famlist):
        holder_, off_, size_, m_ = locate(fam)
        enum_ = dict(cs["enums"][m_["kind"][1]])
        items_ = py["dicts"].get(fam["dict"], {}).get("items", [])
        cval_ = {}
        for nm_, pv_ in items_:
            cand = [ev for en, ev in enum_.items() if en.startswith(fam["prefix"]) and norm(en[len(fam["prefix"]):]) == norm(nm_)]
            if len(cand) == 1:
                cval_[nm_] = cand[0] % (1 << (8 * size_))
        try:
            s0 = rebound.Simulation()
            up_ok = False
            cand_up = [n_ for n_ in cval_ if n_.upper() != n_]
            if cand_up:
                setattr(holder_(s0), fam["property"], cand_up[0].upper())
                up_ok = True
        except Exception:
            up_ok = False
        finfo[fi] = dict(fam=fam, holder=holder_, off=off_, size=size_, names=[n_ for n_, _ in items_ if n_ in cval_], cval=cval_,
                         pyval=dict(items_), upper=up_ok, key="%s.%s" % (fam["class"], fam["property"]))
        Vvals += [(fi, n_) for n_ in finfo[fi]["names"]]
    FACT = {"V": Vvals, "S": ["name", "NAME", "int"], "P": ["fresh", "next", "prev", "composite"],
            "R": ["direct", "copy", "deepcopy", "pickle", "file", "archive"], "G": ["getter", "text"],
            "I": ["none", "other_family", "neighbours"], "H": ["refetch", "held"]}
    FN = list(FACT)
    not_restored = set(ref["opt"].get("not_persisted", []))      # option fields the library documents / is known not to persist

    def pair_excluded(asg):
        """reason why a (partial) assignment cannot occur, else None"""
        if "V" in asg:
            fi, nm_ = asg["V"]
            inf = finfo[fi]
            if asg.get("S") == "NAME" and not inf["upper"]:
                return "the setter of %s does not fold case" % inf["key"]
            if asg.get("S") == "NAME" and nm_.upper() == nm_:
                return "the name has no distinct upper-case spelling"
            if asg.get("P") == "composite" and (inf["fam"]["class"], inf["fam"]["property"]) not in composite_for:
                return "no composite shortcut assigns this family"
            if asg.get("G") == "text" and inf["key"] not in shown:
                return "no repr()/status() text shows this property"
            if asg.get("H") == "held" and inf["fam"]["class"] == "Simulation":
                return "the property lives on the Simulation itself (no sub-object to hold)"
            if asg.get("R") in ("file", "archive") and inf["key"] in not_restored:
                return "field is not persisted in archives (ref/C18_options.json not_persisted)"
        return None
    allpairs, excl_pairs = set(), {}
    for i_, f in enumerate(FN):
        for g in FN[i_ + 1:]:
            for a in FACT[f]:
                for b in FACT[g]:
                    why = pair_excluded({f: a, g: b})
                    if why:
                        excl_pairs[(f, a, g, b)] = why
                    else:
                        allpairs.add((f, a, g, b))
    # a pair of two non-V factors is applicable only if some V admits both
    for pr in list(allpairs):
        f, a, g, b = pr
        if f != "V" and g != "V" and not any(pair_excluded({"V": v, f: a, g: b}) is None for v in Vvals):
            allpairs.discard(pr)
            excl_pairs[pr] = "no family admits both"

    def pairs_of(case):
        return {(f, case[f], g, case[g]) for i_, f in enumerate(FN) for g in FN[i_ + 1:]}
    grng = _random.Random(18)            # the array itself does not depend on VERIF_SEED; the order of execution does
    uncovered = set(allpairs)
    array = []
    guard = 0
    while uncovered and guard < 20000:
        guard += 1
        best, bestn = None, -1
        seedpair = grng.choice(sorted(uncovered, key=repr)) if guard % 7 else None
        for _ in range(30):
            case = {f: grng.choice(FACT[f]) for f in FN}
            if seedpair:
                case[seedpair[0]], case[seedpair[2]] = seedpair[1], seedpair[3]
            if pair_excluded(case):
                # repair: re-draw the non-fixed factors a few times
                for _r in range(20):
                    for f in FN:
                        if not seedpair or f not in (seedpair[0], seedpair[2]):
                            case[f] = grng.choice(FACT[f])
                    if not pair_excluded(case):
                        break
                else:
                    continue
            n_ = len(pairs_of(case) & uncovered)
            if n_ > bestn:
                best, bestn = case, n_
        if best is None or bestn <= 0:
            continue
        array.append(best)
        uncovered -= pairs_of(best)
    if c.thorough:       # 3-way for the factors closest to the mechanism
        for v in Vvals:
            for s_ in FACT["S"]:
                for r_ in FACT["R"]:
                    case = {"V": v, "S": s_, "R": r_, "P": grng.choice(FACT["P"]), "G": grng.choice(FACT["G"]), "I": grng.choice(FACT["I"]), "H": grng.choice(FACT["H"])}
                    for _r in range(30):
                        if not pair_excluded(case):
                            break
                        for f in ("P", "G", "I", "H"):
                            case[f] = grng.choice(FACT[f])
                    if not pair_excluded(case):
                        array.append(case)
    order = list(range(len(array)))
    _random.Random(c.seed).shuffle(order)
    covered = set()
    seq_lines, seq_expect = [], []
    rfile2 = os.path.join(work, "c18_pairs.bin")

    def status_text(s_):
        b = _io.StringIO()
        with _ctx.redirect_stdout(b):
            s_.status()
        return b.getvalue()
    for idx in order:
        case = array[idx]
        fi, bname = case["V"]
        inf = finfo[fi]
        fam, holder_, off_, size_ = inf["fam"], inf["holder"], inf["off"], inf["size"]
        names_ = inf["names"]
        k_ = names_.index(bname)
        sim = rebound.Simulation()
        sim.add(m=1.)
        sim.add(m=1e-3, a=1.)
        held = holder_(sim) if case["H"] == "held" else None
        obj = lambda: held if held is not None else holder_(sim)
        hist = []
        try:
            if case["P"] in ("next", "prev"):
                a_ = names_[(k_ + (1 if case["P"] == "next" else -1)) % len(names_)]
                setattr(obj(), fam["property"], a_)
                hist.append("s:" + a_)
            elif case["P"] == "composite":
                sim.integrator = composite_for[(fam["class"], fam["property"])]
            start = cbytes(sim, off_, size_)
            arg = bname if case["S"] == "name" else (bname.upper() if case["S"] == "NAME" else int(inf["pyval"][bname]))
            sent = []
            if case["I"] == "neighbours":
                stn = fam["struct"]
                base_ = ctypes.addressof(sim) + off_ - cmember(cs, stn, fam["member"])["off"]
                mem_ = cs["structs"][stn]["members"]
                j_ = [x["name"] for x in mem_].index(fam["member"])
                for nb in (mem_[j_ - 1] if j_ > 0 else None, mem_[j_ + 1] if j_ + 1 < len(mem_) else None):
                    if nb is not None and nb["kind"][0] in ("int", "enm", "f64"):
                        saved_ = ctypes.string_at(base_ + nb["off"], nb["size"])
                        ctypes.memset(base_ + nb["off"], 0xA5, nb["size"])
                        sent.append((nb, saved_, base_ + nb["off"]))
            setattr(obj(), fam["property"], arg)
            hist.append(("i:%d" % arg) if case["S"] == "int" else "s:" + arg)
            for nb, saved_, addr_ in sent:
                if ctypes.string_at(addr_, nb["size"]) != b"\xa5" * nb["size"]:
                    c.violation("option-clobbers-neighbour:%s" % inf["key"], "%s = %r overwrites the neighbouring C member %s.%s" % (inf["key"], arg, fam["struct"], nb["name"]),
                                {"python": "%s = %r" % (inf["key"], arg), "neighbour": nb["name"]})
                ctypes.memmove(addr_, saved_, nb["size"])
            if case["I"] == "other_family":
                of = finfo[(fi + 1) % len(finfo)]
                if of["fam"]["member"] != fam["member"] or of["fam"]["struct"] != fam["struct"]:
                    setattr(of["holder"](sim), of["fam"]["property"], of["names"][-1])
            if case["R"] == "direct" and " " not in "".join(hist):
                seq_lines.append("SEQ %s %s %d %s" % (fam["class"], fam["property"], start if case["P"] != "composite" else start, " ".join(hist[-1:])))
                seq_expect.append((cbytes(sim, off_, size_), getattr(obj(), fam["property"]), case))
            if case["R"] == "direct":
                tgt = sim
            elif case["R"] == "copy":
                tgt = sim.copy()
            elif case["R"] == "deepcopy":
                tgt = _copy.deepcopy(sim)
            elif case["R"] == "pickle":
                tgt = pickle.loads(pickle.dumps(sim))
            else:
                sim.save_to_file(rfile2, delete_file=True)
                with warnings_off():
                    tgt = rebound.Simulation(rfile2) if case["R"] == "file" else rebound.Simulationarchive(rfile2)[-1]
            tobj = obj() if case["R"] == "direct" else holder_(tgt)
            gotc = cbytes(tgt, off_, size_)
            if case["G"] == "getter":
                back, okb = getattr(tobj, fam["property"]), None
                okb = back == bname
            else:
                txt = repr(tobj) if shown[inf["key"]] == "repr" else status_text(tgt)
                back = txt[-160:]
                okb = any(tok.strip("<>,") == bname or tok.strip("<>,").endswith("=" + bname) for tok in txt.replace("\t", " ").split())
        except Exception as e:
            c.violation("pairwise-raises:%s" % inf["key"], "case %s raises %s: %s" % (case_str(case), type(e).__name__, str(e)[:120]), {"case": case_str(case)})
            continue
        covered |= pairs_of(case)
        dim["pairwise_cases"] += 1
        c.count(("pw", idx), nontrivial=True)
        if gotc != inf["cval"][bname] or not okb:
            c.violation("pairwise:%s=%s" % (inf["key"], bname),
                        "%s: C sees %d at %s.%s (expected %d); read-out %r (expected %r)" % (case_str(case), gotc, fam["struct"], fam["member"], inf["cval"][bname], back, bname),
                        {"case": case_str(case), "c_bytes": gotc, "expected": inf["cval"][bname], "readout": str(back)})
        del sim
    missingp = sorted(allpairs - covered, key=repr)
    c.cov["pairs"] = {"covered": len(covered & allpairs), "total": len(allpairs), "excluded": len(excl_pairs),
                      "cases": len(array), "factors": {f: len(FACT[f]) for f in FN},
                      "excluded_reasons": dict(collections.Counter(excl_pairs.values())), "missing": [list(map(str, x)) for x in missingp[:10]]}
    if missingp:
        c.broken.append("pairwise coverage of the option factors incomplete: %d of %d applicable pairs never executed (first: %s)" % (len(missingp), len(allpairs), missingp[0]))
    # tie: the Lean setter model on the same (direct) histories
    if seq_lines:
        outl = [l for l in run_driver(exe, seq_lines) if l.startswith("SEQR")]
        ndiff = 0
        for l, (cv, rb, case) in zip(outl, seq_expect):
            f_ = l.split("\t")
            c.count(("seq", case_str(case)))
            if len(f_) < 3 or int(f_[1]) % (1 << 32) != cv or f_[2] != str(rb):
                ndiff += 1
                if ndiff <= 2:
                    c.corr_break("setter model and real property disagree on %s: model %s, C bytes %d, getter %r" % (case_str(case), f_[1:], cv, rb), {"case": case_str(case)})
        c.cov["setter_model_histories_compared"] = len(outl)
        if len(outl) != len(seq_lines):
            c.corr_break("drv_c18 returned %d SEQR lines for %d histories" % (len(outl), len(seq_lines)))

    # ================================================================ anchors and public entry points (extracted from the source of this run)
    rule.append("entry points: every ctypes.Structure class statement and every restype/argtypes assignment found by a text scan of rebound/**/*.py must be in the "
                "extracted tables; every property with a setter of every mirrored class and every ctypes field must have been exercised; every C function Python calls must be exported")
    import re as _re2
    pkg = os.path.join(d, "rebound")
    src_classes, src_ffi = [], []
    for root_, _dirs, files_ in os.walk(pkg):
        if "tests" in root_.split(os.sep):
            continue
        for fn_ in files_:
            if not fn_.endswith(".py"):
                continue
            rel = os.path.relpath(os.path.join(root_, fn_), d)
            for ln_, line_ in enumerate(open(os.path.join(root_, fn_), errors="replace"), 1):
                mcls = _re2.match(r"\s*class\s+(\w+)\s*\(([^)]*)\)", line_)
                if mcls and _re2.search(r"\b(Structure|Union)\b", mcls.group(2)):
                    src_classes.append((rel, ln_, mcls.group(1)))
                if line_.lstrip().startswith("#"):
                    continue
                mf = _re2.search(r"([\w.]+)\.(restype|argtypes|res_type|arg_types|errcheck)\s*=(?!=)", line_)
                if mf:
                    src_ffi.append((rel, ln_, mf.group(1), mf.group(2), line_.strip()))
    missing_cls = [x for x in src_classes if x[2] not in py["classes"]]
    ext_decl = {(d_["module"].replace(".", "/") + ".py", d_["fn"], d_["attr"]) for d_ in py["ffi_decls"]}
    ext_decl |= {(d_["module"].replace(".", "/") + "/__init__.py", d_["fn"], d_["attr"]) for d_ in py["ffi_decls"]}
    indirect_ok = ref["opt"].get("ffi_indirect_ok", [])
    missing_ffi = []
    for rel, ln_, base_, attr, text in src_ffi:
        if base_.startswith("clibrebound."):
            if (rel, base_.split(".", 1)[1], attr) not in ext_decl:
                missing_ffi.append("%s:%d %s" % (rel, ln_, text))
        elif not any(x["file"] == rel and x["text"] in text for x in indirect_ok):
            missing_ffi.append("%s:%d %s" % (rel, ln_, text))
    # properties with a setter: exercise the ones no sweep above touched, then require all
    exercised = {(f["class"], f["property"]) for f in ref["options"]} | {(f_["cls"], f_["prop"]) for f_ in py["fnopts"]}
    exercised |= {("Simulation", p_) for p_ in cbprops} | {("Simulation", "units"), ("Particle", "hash"), ("Particle", "xyz"), ("Particle", "vxyz")}
    sim = mksim(3)
    elvals = dict(a=2.2, e=0.2, inc=0.3, Omega=0.4, omega=0.5, pomega=0.9, f=0.6, M=0.7, l=1.2, theta=1.3, T=0.8, P=9.0, pal_h=0.05, pal_k=0.06, pal_ix=0.07, pal_iy=0.08)
    pcl = classes["Particle"]
    for pn, pv in vars(pcl).items():
        if isinstance(pv, property) and pv.fset is not None and ("Particle", pn) not in exercised and pn in elvals:
            p1 = sim.particles[1]
            try:
                setattr(p1, pn, elvals[pn])
                back = getattr(sim.particles[1], pn)
            except Exception as e:
                c.cov.setdefault("particle_setters_raising", {})[pn] = str(e)[:80]
                continue
            exercised.add(("Particle", pn))
            dim["entry_point_particle_element_setters"] += 1
            c.count(("pset", pn))
            ok_ = abs(back - elvals[pn]) < 1e-9 or abs(abs(back - elvals[pn]) - 2 * math.pi) < 1e-9
            raw_ok = all(struct.unpack("<d", rd(pptr(sim) + pcs["size"] + cmember(cs, "reb_particle", a_)["off"], 8))[0] == getattr(sim.particles[1], a_) for a_ in ("x", "y", "z", "vx", "vy", "vz", "m"))
            if not ok_ or not raw_ok:
                c.violation("property:Particle." + pn, "particles[1].%s = %r reads back %r; Python coordinates equal the C bytes: %s" % (pn, elvals[pn], back, raw_ok), {"python": "sim.particles[1].%s = %r" % (pn, elvals[pn])})
    del sim
    sim = mksim(2, "bs")
    ode = sim.create_ode(length=2, needs_nbody=False)
    ode.derivatives = lambda o_, yd, y, t: None
    dm = cmember(cs, "reb_ode", "derivatives")
    if int.from_bytes(rd(ctypes.addressof(ode) + dm["off"], 8), "little") == 0:
        c.violation("callback:ODE.derivatives", "ode.derivatives = f leaves the C member NULL", {})
    exercised.add(("ODE", "derivatives"))
    del ode, sim
    sim = mksim(3)
    sim.add_variation()
    vc0 = sim.var_config[0]
    vc0.lrescale = 3.25
    lm = cmember(cs, "reb_variational_configuration", "lrescale")
    vp_ = int.from_bytes(rd(ctypes.addressof(sim) + cmember(cs, SIMST, "var_config")["off"], 8), "little")
    if struct.unpack("<d", rd(vp_ + lm["off"], 8))[0] != 3.25 or sim.var_config[0].lrescale != 3.25:
        c.violation("property:Variation.lrescale", "var_config[0].lrescale = 3.25 is not in the C entry", {})
    exercised.add(("Variation", "lrescale"))
    del vc0, sim
    allprops = [(cn, pn) for cn, cls_ in classes.items() for pn, pv in vars(cls_).items() if isinstance(pv, property) and pv.fset is not None]
    not_ex = sorted(set(allprops) - exercised)
    called = sorted({cl["fn"] for cl in py["ffi_calls"]})
    not_exported = [f_ for f_ in called if not hasattr(clib, f_)]
    c.cov["entry_points"] = {"structure_class_statements_in_source": len(src_classes), "in_extracted_table": len(src_classes) - len(missing_cls),
                             "ffi_attribute_assignments_in_source": len(src_ffi), "accounted_for": len(src_ffi) - len(missing_ffi),
                             "properties_with_setter": len(allprops), "exercised": len(allprops) - len(not_ex), "not_exercised": ["%s.%s" % x for x in not_ex],
                             "ctypes_fields": sum(len(v["members"]) for v in py["classes"].values()), "ctypes_fields_exercised": field_cases,
                             "c_functions_called_from_python": len(called), "exported_by_the_library": len(called) - len(not_exported)}
    if missing_cls:
        c.broken.append("ctypes Structure classes in the source that the extraction did not see: %s" % missing_cls[:5])
    if missing_ffi:
        c.broken.append("restype/argtypes assignments in the source that are in no extracted table: %s" % missing_ffi[:5])
    if not_ex:
        c.broken.append("entry points (properties with a setter) not exercised in this run: %s" % ["%s.%s" % x for x in not_ex])
    if field_cases != sum(len(v["members"]) for v in py["classes"].values()):
        c.broken.append("not every ctypes field was exercised")
    for f_ in not_exported:
        site_ = ["%s:%s" % (cl["module"], cl["scope"]) for cl in py["ffi_calls"] if cl["fn"] == f_][0]
        c.violation(call_key(f_, site_), "%s calls clibrebound.%s which the library does not export" % (site_, f_), {"function": f_, "site": site_,
                    "python": "rebound.clibrebound.%s" % f_})
    if len(src_classes) < 20 or len(src_ffi) < 55:
        c.broken.append("source scan found only %d class statements / %d ffi assignments" % (len(src_classes), len(src_ffi)))

    # ---- dimensions covered by the earlier sweeps
    dim["set_A_then_B_named_options"] = pair_cases
    dim["set_A_then_B_function_pointer_options"] = fn_pairs
    dim["composite_shortcut_names"] = comp_cases
    dim["upper_lower_case_spellings"] = sum(1 for k_ in c._distinct if isinstance(k_, tuple) and k_ and k_[0] == "pair" and k_[-1] == "NAME") + comp_cases // 2
    dim["value_zero_as_option_integer"] = sum(1 for k_ in c._distinct if isinstance(k_, tuple) and k_ and k_[0] == "pair" and k_[-1] == "int")
    dim["counters_top_bit_set_all_integer_fields"] = sum(1 for k_ in c._distinct if isinstance(k_, tuple) and len(k_) == 5 and k_[3] in ("w", "r") and k_[4] is True)
    c.cov["dimensions"] = dict(dim)
    for need in ("live_set_A_then_B_all_fields", "special_values_nan_inf_zero_negzero", "special_values_zero_negative_ge_2^31", "integrator_subobjects",
                 "pointer_particles", "array_realloc_container_kept", "pointer_var_config", "pointer_ode", "pointer_simulationarchive", "by_value_struct_returns",
                 "property_units", "property_particle_hash", "defaults_persisted_in_struct", "callbacks_install_replace_clear", "callbacks_invoked_by_C",
                 "subobject_across_reset_integrator", "restore_copy_pickle_archive", "method_history_save_to_file", "method_history_configure_box", "stray_attribute_checks", "set_A_then_B_named_options", "set_A_then_B_function_pointer_options",
                 "composite_shortcut_names", "upper_lower_case_spellings", "value_zero_as_option_integer", "counters_top_bit_set_all_integer_fields"):
        if not dim.get(need):
            c.broken.append("dimension %s not covered" % need)

    # ================================================================ correspondence: model verdicts == executed observations
    # (a field lying over a differently named member is a *name* disagreement for the executed sweep, which goes by
    #  name, and may in addition be a *kind* disagreement for the model, which goes by position: compare the unions)
    mflag = {(s, f) for (s, f, w) in model_bad if f} | model_names
    eflag = {(s, f) for (s, f, w) in exec_bad if f} | exec_names
    c.cov["disagreeing_fields"] = {"model": sorted("%s.%s" % x for x in mflag), "executed": sorted("%s.%s" % x for x in eflag)}
    if mflag != eflag:
        c.corr_break("fields the model flags %s differ from those observed on the real objects %s" % (sorted(mflag - eflag), sorted(eflag - mflag)),
                     {"model_only": sorted(mflag - eflag), "executed_only": sorted(eflag - mflag)})
    # ================================================================ thorough: DWARF as an independent measurement of the C side
    if c.thorough:
        dw = ex.get("dwarf")
        if dw is None:
            c.assumptions.append("gdb/DWARF cross-check unavailable")
        else:
            nd = 0
            for s, (size, mem) in dw.items():
                a = [(m["name"], m["off"], m["size"]) for m in cs["structs"][s]["members"]]
                b = [tuple(x) for x in mem]
                nd += len(b)
                c.count(("dwarf", s), n=len(b))
                if size != cs["structs"][s]["size"] or a != b:
                    c.corr_break("DWARF layout of struct %s differs from the probe program" % s, {"probe": a[:8], "dwarf": b[:8]})
            c.cov["dwarf_members_compared"] = nd
    c.cov["rule"] = "; ".join(rule) + ". distinct_nontrivial = distinct (class, field, element, direction, sign) / (family, name) / symbol cases; all spaces are enumerated completely, nothing is sampled"
    if import_patched:
        c.log("note: the scratch copy's import-time size check was neutralised to name the disagreeing member")


if __name__ == "__main__":
    main("C18", run)
