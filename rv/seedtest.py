"""Run checks against a seeded bug without touching /repo:  python3 rv/seedtest.py seeded/<id> [Cxx ...]
Copies /repo/src and /repo/rebound to a private directory, applies seeded/<id>/patch.diff there,
runs the named checks (default: the property named in meta.json) with REBOUND_REPO pointing at
the copy and VERIF_OUT at a scratch dir, and records the outcome in seeded/<id>/result.json."""
import json, os, shutil, subprocess, sys, tempfile, time
ROOT = os.path.dirname(os.path.dirname(os.path.abspath(__file__)))

def main():
    sd = os.path.abspath(sys.argv[1])
    meta = json.load(open(os.path.join(sd, "meta.json")))
    props = sys.argv[2:] or [meta["property"]]
    tier = os.environ.get("VERIF_TIER", "quick")
    tmp = tempfile.mkdtemp(prefix="seedtest.", dir="/tmp")
    try:
        repo = os.path.join(tmp, "repo")
        os.makedirs(repo)
        for sub in ("src", "rebound"):
            shutil.copytree(os.path.join("/repo", sub), os.path.join(repo, sub),
                            ignore=shutil.ignore_patterns("*.o", "*.so", "__pycache__"))
        p = subprocess.run(["patch", "-p1", "-s", "-i", os.path.join(sd, "patch.diff")], cwd=repo,
                           capture_output=True, text=True)
        if p.returncode != 0:
            print("patch failed:", p.stdout, p.stderr); sys.exit(2)
        res = json.load(open(os.path.join(sd, "result.json"))) if os.path.exists(os.path.join(sd, "result.json")) else {}
        for pid in props:
            out = os.path.join(tmp, "out")
            env = dict(os.environ, REBOUND_REPO=repo, VERIF_OUT=out, VERIF_TIER=tier)
            t0 = time.time()
            q = subprocess.run([os.path.join(ROOT, "check"), pid, "--tier", tier], cwd=ROOT, env=env,
                               capture_output=True, text=True, timeout=3600)
            lines = [l for l in q.stdout.splitlines() if l.startswith(("VIOLATION", "KNOWN-FINDING")) or "FAILING INPUT" in l or "BROKEN" in l]
            res.setdefault(tier, {})[pid] = {"rc": q.returncode, "wall_s": round(time.time() - t0, 1),
                              "caught": q.returncode == 1,
                              "by": ("failing-input" if any("VIOLATION" in l and "no-failing-input-found" not in l for l in lines)
                                     else "proof/correspondence (no-failing-input-found)" if q.returncode == 1 else None),
                              "lines": [l[:300] for l in lines][:8]}
            print(pid, json.dumps(res[tier][pid])[:600])
            if q.returncode == 2:
                print(q.stderr[-1500:])
        json.dump(res, open(os.path.join(sd, "result.json"), "w"), indent=1)
        fp = os.path.join(sd, "first_pass.json")   # outcome of the very first run, before anything was strengthened; never overwritten
        if not os.path.exists(fp) and os.environ.get("SEED_FIRST_PASS"):
            json.dump(res, open(fp, "w"), indent=1)
    finally:
        shutil.rmtree(tmp, ignore_errors=True)

if __name__ == "__main__":
    main()
