"""Translator for C20: rebound/units.py  ->  lean/RV/Gen/C20Units.lean

Parses the *text* of units.py with `ast` (nothing is imported from it):
  G_SI, times_SI, lengths_SI, masses_SI
Every value expression is evaluated twice:
  exact : with fractions.Fraction on the decimal text of each literal (`Fraction("6.67408e-11")`),
          supporting + - * / ** (integer exponent), unary minus, names defined earlier in the
          file, and one top-level `math.sqrt(<rational expression>)` (recorded as a radicand)
  f64   : the same AST compiled and evaluated by CPython in IEEE doubles, i.e. the number the
          module holds after import (checked bitwise against the imported module by rv/c20.py)
and the committed independent reference table ref/C20_units_reference.json is embedded next to
it, so the Lean theorems of RV/Props/C20.lean compare the two.  Item counts are emitted so that
an extraction that silently finds fewer entries fails an obligation.
"""
import ast, json, math, os, struct
from fractions import Fraction

HERE = os.path.dirname(os.path.abspath(__file__))
ROOT = os.path.dirname(HERE)
REF = os.path.join(ROOT, "ref", "C20_units_reference.json")
TABLES = ("times_SI", "lengths_SI", "masses_SI")


class Unsupported(Exception):
    pass


class Sqrt:
    def __init__(self, radicand):
        self.radicand = radicand


def exact_eval(node, src, env):
    """Fraction value of an expression from the decimal text of its literals"""
    if isinstance(node, ast.Constant):
        if isinstance(node.value, bool) or not isinstance(node.value, (int, float)):
            raise Unsupported("constant %r" % (node.value,))
        txt = ast.get_source_segment(src, node)
        return Fraction(txt.replace("_", ""))
    if isinstance(node, ast.Name):
        if node.id in env:
            return env[node.id]
        raise Unsupported("name " + node.id)
    if isinstance(node, ast.UnaryOp) and isinstance(node.op, (ast.USub, ast.UAdd)):
        v = exact_eval(node.operand, src, env)
        return -v if isinstance(node.op, ast.USub) else v
    if isinstance(node, ast.BinOp):
        a = exact_eval(node.left, src, env)
        b = exact_eval(node.right, src, env)
        if isinstance(a, Sqrt) or isinstance(b, Sqrt):
            raise Unsupported("sqrt below the top level")
        if isinstance(node.op, ast.Add):
            return a + b
        if isinstance(node.op, ast.Sub):
            return a - b
        if isinstance(node.op, ast.Mult):
            return a * b
        if isinstance(node.op, ast.Div):
            if b == 0:
                raise Unsupported("division by zero")
            return a / b
        if isinstance(node.op, ast.Pow):
            if b.denominator != 1 or abs(b) > 64:
                raise Unsupported("non-integer power")
            return a ** int(b)
        raise Unsupported("operator " + type(node.op).__name__)
    if isinstance(node, ast.Call) and isinstance(node.func, ast.Attribute) and \
            isinstance(node.func.value, ast.Name) and node.func.value.id == "math" and \
            node.func.attr == "sqrt" and len(node.args) == 1 and not node.keywords:
        r = exact_eval(node.args[0], src, env)
        if isinstance(r, Sqrt):
            raise Unsupported("nested sqrt")
        return Sqrt(r)
    raise Unsupported(ast.dump(node)[:80])


def f64_eval(node, fenv):
    code = compile(ast.Expression(body=node), "<units.py>", "eval")
    return float(eval(code, {"__builtins__": {}, "math": math}, dict(fenv)))


def parse_units(path):
    """returns dict(G=(exact,f64), tables={name: [(key, exact|Sqrt|None, f64, text)]}, errors=[...])"""
    src = open(path).read()
    tree = ast.parse(src)
    env, fenv = {}, {}
    tables, errors = {}, []
    for st in tree.body:
        if not isinstance(st, ast.Assign) or len(st.targets) != 1 or not isinstance(st.targets[0], ast.Name):
            continue
        name = st.targets[0].id
        if isinstance(st.value, ast.Dict) and name in TABLES:
            rows = []
            for k, v in zip(st.value.keys, st.value.values):
                if not (isinstance(k, ast.Constant) and isinstance(k.value, str)):
                    errors.append("%s: non-literal key" % name)
                    continue
                txt = ast.get_source_segment(src, v)
                try:
                    ex = exact_eval(v, src, env)
                except Unsupported as e:
                    errors.append("%s[%s]: %s" % (name, k.value, e))
                    ex = None
                try:
                    fv = f64_eval(v, fenv)
                except Exception as e:
                    errors.append("%s[%s]: float evaluation failed: %s" % (name, k.value, e))
                    fv = float("nan")
                rows.append((k.value, ex, fv, txt))
            tables[name] = rows
        elif not isinstance(st.value, ast.Dict):
            try:
                env[name] = exact_eval(st.value, src, env)
                fenv[name] = f64_eval(st.value, fenv)
            except Exception:
                pass
    out = {"tables": tables, "errors": errors, "G": (env.get("G_SI"), fenv.get("G_SI"))}
    for t in TABLES:
        if t not in tables:
            errors.append("table %s not found" % t)
            tables[t] = []
    if out["G"][0] is None:
        errors.append("G_SI not found")
    return out


def load_ref():
    r = json.load(open(REF))
    f = lambda e: (Fraction(e["value"]), Fraction(e["rtol"]))
    return {"G": f(r["G"]),
            "lengths": {k: f(v) for k, v in r["lengths"].items()},
            "times": {k: f(v) for k, v in r["times"].items()},
            "masses": {k: f(v) for k, v in r["masses"].items()},
            "GM": {k: f(v) for k, v in r["GM"].items()},
            "alias_groups": r["alias_groups"],
            "derived": {k: f(v) for k, v in r["derived"].items()}}


def fr_of_float(x):
    if x != x or x in (float("inf"), float("-inf")):
        return Fraction(0)       # makes the positivity theorem fail
    return Fraction(x)


def lean_str(s):
    return '"' + s.replace("\\", "\\\\").replace('"', '\\"') + '"'


def q(fr):
    return "(%d, %d)" % (fr.numerator, fr.denominator)


def row(name, fr):
    return "(%s, %d, %d)" % (lean_str(name), fr.numerator, fr.denominator)


def generate(repo):
    p = parse_units(os.path.join(repo, "rebound", "units.py"))
    ref = load_ref()
    T = p["tables"]
    L = []
    A = L.append
    A("/- GENERATED by rv/extract_c20.py from rebound/units.py and ref/C20_units_reference.json — do not edit.")
    A("   Every number is an exact rational `(numerator, denominator)`.")
    A("   `*Exact`: Fraction evaluation of the expression text (decimal literals taken literally);")
    A("   `*F64`  : the IEEE double CPython computes for the same expression (what the module holds);")
    A("   `ref*`  : the committed independent reference (value, relative tolerance). -/")
    A("namespace RV.Gen.C20")
    A("")
    gex, gf = p["G"]
    A("def gExact : Int × Nat := %s" % q(gex if gex is not None else Fraction(0)))
    A("def gF64 : Int × Nat := %s" % q(fr_of_float(gf if gf is not None else float('nan'))))
    for tname, short in (("lengths_SI", "lengths"), ("times_SI", "times"), ("masses_SI", "masses")):
        rows = T[tname]
        A("")
        A("/-- %s: value of the expression text, exact; entries written with math.sqrt are in `%sSqrt` -/" % (tname, short))
        A("def %sExact : List (String × Int × Nat) := [" % short)
        A(",\n".join("  " + row(k, ex) for k, ex, fv, txt in rows if isinstance(ex, Fraction)))
        A("]")
        A("/-- %s: entries of the form math.sqrt(r): (name, radicand) -/" % tname)
        A("def %sSqrt : List (String × Int × Nat) := [" % short)
        A(",\n".join("  " + row(k, ex.radicand) for k, ex, fv, txt in rows if isinstance(ex, Sqrt)))
        A("]")
        A("/-- %s as IEEE doubles (all entries, file order) -/" % tname)
        A("def %sF64 : List (String × Int × Nat) := [" % short)
        A(",\n".join("  " + row(k, fr_of_float(fv)) for k, ex, fv, txt in rows))
        A("]")
        A("def %sCount : Nat := %d" % (short, len(rows)))
    A("")
    A("def parseErrors : Nat := %d" % len(p["errors"]))
    A("")
    for short in ("lengths", "times", "masses"):
        A("/-- reference: (name, value, rtol) -/")
        A("def ref%s : List (String × (Int × Nat) × (Int × Nat)) := [" % short.capitalize())
        A(",\n".join("  (%s, %s, %s)" % (lean_str(k), q(v), q(t)) for k, (v, t) in ref[short].items()))
        A("]")
    A("/-- reference GM values (m^3/s^2) for the mass units defined as GM/G_SI: (name, GM, rtol) -/")
    A("def refGM : List (String × (Int × Nat) × (Int × Nat)) := [")
    A(",\n".join("  (%s, %s, %s)" % (lean_str(k), q(v), q(t)) for k, (v, t) in ref["GM"].items()))
    A("]")
    A("def refG : (Int × Nat) × (Int × Nat) := (%s, %s)" % (q(ref["G"][0]), q(ref["G"][1])))
    A("def aliasGroups : List (List String) := [")
    A(",\n".join("  [" + ", ".join(lean_str(x) for x in g) + "]" for g in ref["alias_groups"]))
    A("]")
    A("def refMsunInMassist : (Int × Nat) × (Int × Nat) := (%s, %s)" % (q(ref["derived"]["msun_in_massist"][0]), q(ref["derived"]["msun_in_massist"][1])))
    A("")
    A("end RV.Gen.C20")
    return "\n".join(L) + "\n", p, ref


# ----------------------------------------------------------------------------- conversion functions
FUNCS = ("convert_mass", "convert_length", "convert_vel", "convert_acc", "convert_G", "units_convert_particle")
TABLE_SHORT = {"lengths_SI": "L", "times_SI": "T", "masses_SI": "M"}
LEAN_NAME = {"convert_mass": "genConvertMass", "convert_length": "genConvertLength", "convert_vel": "genConvertVel",
             "convert_acc": "genConvertAcc", "convert_G": "genConvertG", "units_convert_particle": "genConvertParticle"}
PFIELDS = ["m", "x", "y", "z", "r", "vx", "vy", "vz", "ax", "ay", "az"]


class FnError(Exception):
    pass


def _subscripts(fn):
    """(table, name) pairs `tab[name]` used anywhere in the function body, in order of appearance"""
    out = []
    for n in ast.walk(fn):
        if isinstance(n, ast.Subscript) and isinstance(n.value, ast.Name) and n.value.id in TABLE_SHORT \
                and isinstance(n.slice, ast.Name):
            if (n.value.id, n.slice.id) not in out:
                out.append((n.value.id, n.slice.id))
    return out


def translate_functions(path):
    """Lean source of the conversion functions of units.py, translated statement by statement.
    A unit-name parameter `u` that the body uses as `tab[u]` becomes the parameter `X_u : K` (X = L, T, M)
    holding that table value; module-level numbers (G_SI) become parameters; calls to other conversion
    functions become applications of their translations; `x**n` becomes `ScalarP.powi x n`."""
    src = open(path).read()
    tree = ast.parse(src)
    fns = {n.name: n for n in tree.body if isinstance(n, ast.FunctionDef)}
    sigs = {}      # python name -> list of ('val', pyname) | ('unit', table, pyname) | ('global', name)
    out, errors = [], []

    def unit_names_of(fn):
        """names bound to unit names: parameters subscripting a table, or unpacked from a parameter"""
        return {nm for _, nm in _subscripts(fn)}

    def build_sig(name):
        fn = fns[name]
        params = [a.arg for a in fn.args.args]
        subs = _subscripts(fn)
        unitnames = []
        # tuple-unpacked unit names: `new_l, new_t, new_m = newunits`
        unpacked = {}
        for st in fn.body:
            if isinstance(st, ast.Assign) and len(st.targets) == 1 and isinstance(st.targets[0], ast.Tuple) \
                    and isinstance(st.value, ast.Name) and st.value.id in params:
                unpacked[st.value.id] = [e.id for e in st.targets[0].elts if isinstance(e, ast.Name)]
        sig = []
        for p_ in params:
            names = unpacked.get(p_, [p_])
            used = False
            for nm in names:
                tabs = [t for t, n2 in subs if n2 == nm]
                # names handed on to other conversion functions count through the callee's signature
                for c_ in ast.walk(fn):
                    if isinstance(c_, ast.Call) and isinstance(c_.func, ast.Name) and c_.func.id in fns and c_.func.id in FUNCS:
                        if c_.func.id not in sigs:
                            build_sig(c_.func.id)
                        csig = sigs[c_.func.id]
                        cparams = [a.arg for a in fns[c_.func.id].args.args]
                        for ai, a_ in enumerate(c_.args):
                            if isinstance(a_, ast.Name) and a_.id == nm and ai < len(cparams):
                                for ent in csig:
                                    if ent[0] == "unit" and ent[3] == cparams[ai] and ent[1] not in tabs:
                                        tabs.append(ent[1])
                for t in ("lengths_SI", "times_SI", "masses_SI"):
                    if t in tabs:
                        sig.append(("unit", t, nm, p_ if p_ in unpacked else nm))
                        used = True
            if not used and p_ not in unpacked:
                sig.append(("val", p_))
        # module-level numbers
        for n in ast.walk(fn):
            if isinstance(n, ast.Name) and n.id == "G_SI" and ("global", "G_SI") not in sig:
                sig.insert(0, ("global", "G_SI"))
        sigs[name] = sig
        return sig

    def lean_param(ent):
        if ent[0] == "val":
            return ent[1]
        if ent[0] == "global":
            return ent[1]
        return TABLE_SHORT[ent[1]] + "_" + ent[2]

    def expr(e, name, locs, pobj):
        if isinstance(e, ast.Name):
            if e.id in locs or ("val", e.id) in sigs[name] or ("global", e.id) in sigs[name]:
                return e.id
            raise FnError("%s: unknown name %s" % (name, e.id))
        if isinstance(e, ast.Constant) and isinstance(e.value, int) and not isinstance(e.value, bool) and e.value >= 0:
            return "(Scalar.ofNat %d)" % e.value
        if isinstance(e, ast.Attribute) and isinstance(e.value, ast.Name) and e.value.id == pobj and e.attr in PFIELDS:
            return "%s.%s" % (pobj, e.attr)
        if isinstance(e, ast.Subscript) and isinstance(e.value, ast.Name) and e.value.id in TABLE_SHORT and isinstance(e.slice, ast.Name):
            return TABLE_SHORT[e.value.id] + "_" + e.slice.id
        if isinstance(e, ast.BinOp):
            if isinstance(e.op, ast.Pow):
                if isinstance(e.right, ast.Constant) and isinstance(e.right.value, int) and 0 <= e.right.value <= 9:
                    return "(ScalarP.powi %s %d)" % (expr(e.left, name, locs, pobj), e.right.value)
                raise FnError("%s: power with a non-literal exponent" % name)
            ops = {ast.Mult: "*", ast.Div: "/", ast.Add: "+", ast.Sub: "-"}
            if type(e.op) in ops:
                return "(%s %s %s)" % (expr(e.left, name, locs, pobj), ops[type(e.op)], expr(e.right, name, locs, pobj))
            raise FnError("%s: operator %s" % (name, type(e.op).__name__))
        if isinstance(e, ast.Call) and isinstance(e.func, ast.Name) and e.func.id in FUNCS and e.func.id in fns and not e.keywords:
            callee = e.func.id
            if callee not in sigs:
                build_sig(callee)
            cparams = [a.arg for a in fns[callee].args.args]
            if len(e.args) != len(cparams):
                raise FnError("%s: call of %s with %d arguments" % (name, callee, len(e.args)))
            amap = dict(zip(cparams, e.args))
            args = []
            for ent in sigs[callee]:
                if ent[0] == "val":
                    args.append(expr(amap[ent[1]], name, locs, pobj))
                elif ent[0] == "global":
                    args.append(ent[1])
                else:
                    a_ = amap[ent[3]]
                    if not isinstance(a_, ast.Name):
                        raise FnError("%s: unit argument of %s is not a name" % (name, callee))
                    args.append(TABLE_SHORT[ent[1]] + "_" + a_.id)
            return "(%s %s)" % (LEAN_NAME[callee], " ".join(args))
        raise FnError("%s: unsupported expression %s" % (name, ast.dump(e)[:80]))

    done = []
    for name in FUNCS:
        if name not in fns:
            errors.append("function %s not found" % name)
            continue
        try:
            if name not in sigs:
                build_sig(name)
            sig = sigs[name]
            fn = fns[name]
            pobj = "p" if name == "units_convert_particle" else None
            params = [lean_param(e) for e in sig if not (e[0] == "val" and e[1] == pobj)]
            body = []
            locs = set()
            ret = None
            for st in fn.body:
                if isinstance(st, ast.Expr) and isinstance(st.value, ast.Constant):
                    continue                       # docstring
                if isinstance(st, ast.Assign) and len(st.targets) == 1 and isinstance(st.targets[0], ast.Tuple):
                    continue                       # unpacking of a units tuple (handled by the signature)
                if isinstance(st, ast.Assign) and len(st.targets) == 1 and isinstance(st.targets[0], ast.Name):
                    body.append("  let %s := %s" % (st.targets[0].id, expr(st.value, name, locs, pobj)))
                    locs.add(st.targets[0].id)
                    continue
                if pobj and isinstance(st, ast.Assign) and len(st.targets) == 1 and isinstance(st.targets[0], ast.Attribute) \
                        and isinstance(st.targets[0].value, ast.Name) and st.targets[0].value.id == pobj and st.targets[0].attr in PFIELDS:
                    body.append("  let %s : PData K := { %s with %s := %s }" % (pobj, pobj, st.targets[0].attr, expr(st.value, name, locs, pobj)))
                    continue
                if isinstance(st, ast.Return) and ret is None:
                    ret = expr(st.value, name, locs, pobj) if not (pobj and isinstance(st.value, ast.Name) and st.value.id == pobj) else pobj
                    continue
                raise FnError("%s: unsupported statement %s" % (name, ast.dump(st)[:80]))
            if ret is None:
                raise FnError("%s: no return" % name)
            if pobj:
                hdr = "def %s (p : PData K) (%s : K) : PData K :=" % (LEAN_NAME[name], " ".join(params))
            else:
                hdr = "def %s (%s : K) : K :=" % (LEAN_NAME[name], " ".join(params))
            out.append("/-- `%s(%s)` of rebound/units.py, statement by statement -/" % (name, ", ".join(a.arg for a in fn.args.args)))
            out.append(hdr)
            out.extend(body)
            out.append("  " + ret)
            out.append("")
            done.append(name)
        except FnError as ex:
            errors.append(str(ex))
        except Exception as ex:
            errors.append("%s: %r" % (name, ex))
    L = ["import RV.Model.Units",
         "/- GENERATED by rv/extract_c20.py from the function bodies of rebound/units.py — do not edit.",
         "   A unit-name parameter `u` used as `tab[u]` is the parameter `X_u` (the SI value of that unit). -/",
         "namespace RV.Gen.C20Fns", "open RV RV.Units", "variable {K : Type} [ScalarP K]", ""]
    L += out
    L.append("def fnParseErrors : Nat := %d" % len(errors))
    L.append("def fnTranslated : List String := [%s]" % ", ".join('"%s"' % d for d in done))
    L.append("")
    L.append("end RV.Gen.C20Fns")
    return "\n".join(L) + "\n", errors, done


# ----------------------------------------------------------------------------- public entry points
C_ENTRY_RE = (r"reb_rotation_(?!to_mat4df)\w+|reb_rotation_to_mat4df|reb_vec3d_\w+|reb_particle_irotate|reb_simulation_irotate|"
              r"reb_simulation_move_to_(?:hel|com)|reb_simulation_(?:imul|iadd|isub)|reb_simulation_com(?:_range)?|reb_particle_com_of_pair|reb_hash")
SIM_METHOD_RE = r"^(units|update_units|equal_units|convert_particle_units|move_to_com|move_to_hel|rotate|multiply|__i?(add|sub|mul|truediv|div)__|__rmul__)$"


def entry_points(repo):
    """public functions / methods that reach the C20 mechanisms, extracted from src/rebound.h (DLLEXPORT) and the Python classes"""
    import re
    out = []
    hdr = open(os.path.join(repo, "src", "rebound.h")).read()
    for ln in hdr.splitlines():
        if ln.startswith("DLLEXPORT"):
            m = re.search(r"\b(" + C_ENTRY_RE + r")\s*\(", ln)
            if m:
                out.append(m.group(1))

    def methods(fn, cls):
        tree = ast.parse(open(os.path.join(repo, "rebound", fn)).read())
        for n in tree.body:
            if isinstance(n, ast.ClassDef) and n.name == cls:
                return [m.name for m in n.body if isinstance(m, ast.FunctionDef)]
        return []
    out += ["Rotation." + m for m in methods("rotation.py", "Rotation")]
    out += ["Vec3d." + m for m in methods("vectors.py", "Vec3d") if m in ("rotate", "normalize")]
    out += ["Particle." + m for m in methods("particle.py", "Particle") if m == "rotate"]
    import re as _re
    out += ["Simulation." + m for m in methods("simulation.py", "Simulation") if _re.match(SIM_METHOD_RE, m)]
    tree = ast.parse(open(os.path.join(repo, "rebound", "units.py")).read())
    out += ["units." + n.name for n in tree.body if isinstance(n, ast.FunctionDef)]
    return sorted(set(out))


if __name__ == "__main__":
    import sys
    _args = [a for a in sys.argv[1:] if not a.startswith("--")]
    _repo = _args[0] if _args else "/repo"
    if "--fns" in sys.argv:
        t2, errs, done = translate_functions(os.path.join(_repo, "rebound", "units.py"))
        sys.stdout.write(t2)
        sys.stderr.write("fn errors: %s done: %s\n" % (errs, done))
    else:
        txt, p, ref = generate(_repo)
        sys.stdout.write(txt)
        sys.stderr.write("errors: %s\n" % p["errors"])
