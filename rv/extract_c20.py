"""Translator for C20: rebound/units.py  ->  lean/RV/Gen/C20Units.lean

Parses the *text* of units.py with `ast` (nothing is imported from it):
  G_SI, times_SI, lengths_SI, masses_SI
Every value expression is evaluated twice:
  exact : with fractions.Fraction on the decimal text of each literal (`Fraction("6.67408e-11")`),
          supporting + - * / ** (integer exponent), unary minus, names defined earlier in the
          file, and one top-level `math.sqrt(<rational expression>)` (recorded as a radicand)
  f64   : the same AST compiled and evaluated by CPython in IEEE doubles, i.e. the number the
          module holds after import (checked bitwise against the imported module by rv/c20.py)
and the committed independent reference table ref/C20_units_reference.json is embedded next to
it, so the Lean theorems of RV/Props/C20.lean compare the two.  Item counts are emitted so that
an extraction that silently finds fewer entries fails an obligation.
"""
import ast, json, math, os, struct
from fractions import Fraction

HERE = os.path.dirname(os.path.abspath(__file__))
ROOT = os.path.dirname(HERE)
REF = os.path.join(ROOT, "ref", "C20_units_reference.json")
TABLES = ("times_SI", "lengths_SI", "masses_SI")


class Unsupported(Exception):
    pass


class Sqrt:
    def __init__(self, radicand):
        self.radicand = radicand


def exact_eval(node, src, env):
    """Fraction value of an expression from the decimal text of its literals"""
    if isinstance(node, ast.Constant):
        if isinstance(node.value, bool) or not isinstance(node.value, (int, float)):
            raise Unsupported("constant %r" % (node.value,))
        txt = ast.get_source_segment(src, node)
        return Fraction(txt.replace("_", ""))
    if isinstance(node, ast.Name):
        if node.id in env:
            return env[node.id]
        raise Unsupported("name " + node.id)
    if isinstance(node, ast.UnaryOp) and isinstance(node.op, (ast.USub, ast.UAdd)):
        v = exact_eval(node.operand, src, env)
        return -v if isinstance(node.op, ast.USub) else v
    if isinstance(node, ast.BinOp):
        a = exact_eval(node.left, src, env)
        b = exact_eval(node.right, src, env)
        if isinstance(a, Sqrt) or isinstance(b, Sqrt):
            raise Unsupported("sqrt below the top level")
        if isinstance(node.op, ast.Add):
            return a + b
        if isinstance(node.op, ast.Sub):
            return a - b
        if isinstance(node.op, ast.Mult):
            return a * b
        if isinstance(node.op, ast.Div):
            if b == 0:
                raise Unsupported("division by zero")
            return a / b
        if isinstance(node.op, ast.Pow):
            if b.denominator != 1 or abs(b) > 64:
                raise Unsupported("non-integer power")
            return a ** int(b)
        raise Unsupported("operator " + type(node.op).__name__)
    if isinstance(node, ast.Call) and isinstance(node.func, ast.Attribute) and \
            isinstance(node.func.value, ast.Name) and node.func.value.id == "math" and \
            node.func.attr == "sqrt" and len(node.args) == 1 and not node.keywords:
        r = exact_eval(node.args[0], src, env)
        if isinstance(r, Sqrt):
            raise Unsupported("nested sqrt")
        return Sqrt(r)
    raise Unsupported(ast.dump(node)[:80])


def f64_eval(node, fenv):
    code = compile(ast.Expression(body=node), "<units.py>", "eval")
    return float(eval(code, {"__builtins__": {}, "math": math}, dict(fenv)))


def parse_units(path):
    """returns dict(G=(exact,f64), tables={name: [(key, exact|Sqrt|None, f64, text)]}, errors=[...])"""
    src = open(path).read()
    tree = ast.parse(src)
    env, fenv = {}, {}
    tables, errors = {}, []
    for st in tree.body:
        if not isinstance(st, ast.Assign) or len(st.targets) != 1 or not isinstance(st.targets[0], ast.Name):
            continue
        name = st.targets[0].id
        if isinstance(st.value, ast.Dict) and name in TABLES:
            rows = []
            for k, v in zip(st.value.keys, st.value.values):
                if not (isinstance(k, ast.Constant) and isinstance(k.value, str)):
                    errors.append("%s: non-literal key" % name)
                    continue
                txt = ast.get_source_segment(src, v)
                try:
                    ex = exact_eval(v, src, env)
                except Unsupported as e:
                    errors.append("%s[%s]: %s" % (name, k.value, e))
                    ex = None
                try:
                    fv = f64_eval(v, fenv)
                except Exception as e:
                    errors.append("%s[%s]: float evaluation failed: %s" % (name, k.value, e))
                    fv = float("nan")
                rows.append((k.value, ex, fv, txt))
            tables[name] = rows
        elif not isinstance(st.value, ast.Dict):
            try:
                env[name] = exact_eval(st.value, src, env)
                fenv[name] = f64_eval(st.value, fenv)
            except Exception:
                pass
    out = {"tables": tables, "errors": errors, "G": (env.get("G_SI"), fenv.get("G_SI"))}
    for t in TABLES:
        if t not in tables:
            errors.append("table %s not found" % t)
            tables[t] = []
    if out["G"][0] is None:
        errors.append("G_SI not found")
    return out


def load_ref():
    r = json.load(open(REF))
    f = lambda e: (Fraction(e["value"]), Fraction(e["rtol"]))
    return {"G": f(r["G"]),
            "lengths": {k: f(v) for k, v in r["lengths"].items()},
            "times": {k: f(v) for k, v in r["times"].items()},
            "masses": {k: f(v) for k, v in r["masses"].items()},
            "GM": {k: f(v) for k, v in r["GM"].items()},
            "alias_groups": r["alias_groups"],
            "derived": {k: f(v) for k, v in r["derived"].items()}}


def fr_of_float(x):
    if x != x or x in (float("inf"), float("-inf")):
        return Fraction(0)       # makes the positivity theorem fail
    return Fraction(x)


def lean_str(s):
    return '"' + s.replace("\\", "\\\\").replace('"', '\\"') + '"'


def q(fr):
    return "(%d, %d)" % (fr.numerator, fr.denominator)


def row(name, fr):
    return "(%s, %d, %d)" % (lean_str(name), fr.numerator, fr.denominator)


def generate(repo):
    p = parse_units(os.path.join(repo, "rebound", "units.py"))
    ref = load_ref()
    T = p["tables"]
    L = []
    A = L.append
    A("/- GENERATED by rv/extract_c20.py from rebound/units.py and ref/C20_units_reference.json — do not edit.")
    A("   Every number is an exact rational `(numerator, denominator)`.")
    A("   `*Exact`: Fraction evaluation of the expression text (decimal literals taken literally);")
    A("   `*F64`  : the IEEE double CPython computes for the same expression (what the module holds);")
    A("   `ref*`  : the committed independent reference (value, relative tolerance). -/")
    A("namespace RV.Gen.C20")
    A("")
    gex, gf = p["G"]
    A("def gExact : Int × Nat := %s" % q(gex if gex is not None else Fraction(0)))
    A("def gF64 : Int × Nat := %s" % q(fr_of_float(gf if gf is not None else float('nan'))))
    for tname, short in (("lengths_SI", "lengths"), ("times_SI", "times"), ("masses_SI", "masses")):
        rows = T[tname]
        A("")
        A("/-- %s: value of the expression text, exact; entries written with math.sqrt are in `%sSqrt` -/" % (tname, short))
        A("def %sExact : List (String × Int × Nat) := [" % short)
        A(",\n".join("  " + row(k, ex) for k, ex, fv, txt in rows if isinstance(ex, Fraction)))
        A("]")
        A("/-- %s: entries of the form math.sqrt(r): (name, radicand) -/" % tname)
        A("def %sSqrt : List (String × Int × Nat) := [" % short)
        A(",\n".join("  " + row(k, ex.radicand) for k, ex, fv, txt in rows if isinstance(ex, Sqrt)))
        A("]")
        A("/-- %s as IEEE doubles (all entries, file order) -/" % tname)
        A("def %sF64 : List (String × Int × Nat) := [" % short)
        A(",\n".join("  " + row(k, fr_of_float(fv)) for k, ex, fv, txt in rows))
        A("]")
        A("def %sCount : Nat := %d" % (short, len(rows)))
    A("")
    A("def parseErrors : Nat := %d" % len(p["errors"]))
    A("")
    for short in ("lengths", "times", "masses"):
        A("/-- reference: (name, value, rtol) -/")
        A("def ref%s : List (String × (Int × Nat) × (Int × Nat)) := [" % short.capitalize())
        A(",\n".join("  (%s, %s, %s)" % (lean_str(k), q(v), q(t)) for k, (v, t) in ref[short].items()))
        A("]")
    A("/-- reference GM values (m^3/s^2) for the mass units defined as GM/G_SI: (name, GM, rtol) -/")
    A("def refGM : List (String × (Int × Nat) × (Int × Nat)) := [")
    A(",\n".join("  (%s, %s, %s)" % (lean_str(k), q(v), q(t)) for k, (v, t) in ref["GM"].items()))
    A("]")
    A("def refG : (Int × Nat) × (Int × Nat) := (%s, %s)" % (q(ref["G"][0]), q(ref["G"][1])))
    A("def aliasGroups : List (List String) := [")
    A(",\n".join("  [" + ", ".join(lean_str(x) for x in g) + "]" for g in ref["alias_groups"]))
    A("]")
    A("def refMsunInMassist : (Int × Nat) × (Int × Nat) := (%s, %s)" % (q(ref["derived"]["msun_in_massist"][0]), q(ref["derived"]["msun_in_massist"][1])))
    A("")
    A("end RV.Gen.C20")
    return "\n".join(L) + "\n", p, ref


if __name__ == "__main__":
    import sys
    txt, p, ref = generate(sys.argv[1] if len(sys.argv) > 1 else "/repo")
    sys.stdout.write(txt)
    sys.stderr.write("errors: %s\n" % p["errors"])
