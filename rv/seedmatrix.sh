#!/bin/bash
# run every seeded change that has no result for the current tier yet (or all with --all); per property sequential, 5 properties in parallel
cd /verif
export all=$1
run_prop() {
  p=$1
  for sd in seeded/$p-*; do
    [ -f $sd/meta.json ] || continue
    if [ -z "$all" ] && [ -f $sd/result.json ]; then continue; fi
    python3 rv/seedtest.py $sd > /tmp/seedmatrix-$(basename $sd).log 2>&1
    echo "$(basename $sd): $(grep -o '"caught": [a-z]*, "by": "[^"]*"\|"caught": false' /tmp/seedmatrix-$(basename $sd).log | head -1) $(grep -c 'patch failed' /tmp/seedmatrix-$(basename $sd).log)"
  done
  ./check $p > /tmp/seedmatrix-clean-$p.log 2>&1; echo "$p clean rc=$?"
}
export -f run_prop
printf "%s\n" C01 C02 C03 C04 C05 C06 C07 C08 C09 C10 C11 C12 C13 C14 C15 C16 C17 C18 C19 C20 | xargs -P 5 -I{} bash -c 'run_prop {}'
