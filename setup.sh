#!/bin/bash
# Build the Lean side from files on disk only (no network): library (models, proofs,
# property theorems) and all native drivers.
set -e
cd "$(dirname "$0")/lean"
exes=$(grep -A1 '^\[\[lean_exe\]\]' lakefile.toml | grep '^name' | sed 's/.*"\(.*\)"/\1/')
lake build RV $exes
