#!/bin/bash
# Build the Lean side from files on disk only (no network): models, proofs, property
# theorems (every RV/Props/*.lean) and all native drivers whose root file exists.
# A target that fails to build here is reported but does not abort the setup: the check
# that needs it rebuilds it and reports the failure under its own property.
cd "$(dirname "$0")/lean"
props=$(ls RV/Props/*.lean 2>/dev/null | sed 's/\.lean$//; s#/#.#g')
exes=""
for e in $(grep -A2 '^\[\[lean_exe\]\]' lakefile.toml | grep '^name' | sed 's/.*"\(.*\)"/\1/'); do
  root=$(grep -A2 "name = \"$e\"" lakefile.toml | grep '^root' | sed 's/.*"\(.*\)"/\1/')
  f=$(echo "$root" | sed 's#\.#/#g').lean
  [ -f "$f" ] && exes="$exes $e"
done
echo "building: $props $exes"
if ! lake build RV $props $exes; then
  echo "setup: some targets failed; building the rest one by one"
  for t in RV $props $exes; do lake build $t > /dev/null 2>&1 || echo "setup: target $t FAILED"; done
fi
exit 0
